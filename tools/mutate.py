#!/usr/bin/env python3
"""Systematic sensitivity measurement by small syntactic mutations.

usage: tools/mutate.py <count> [seed] [--files src/a.rs,src/b.rs]

Works ONLY on an independent copy of /repo and /verif under /tmp/mut (created
here, like tools/make_sweep_copy.sh), never on /repo. For each sampled mutant:

  1. apply a one-line mutation to a library source line (no test code, no
     comments, no assertions/formatting, nothing under cfg(aho_corasick_verif));
  2. `cargo build --offline` in the copy  -> "no-compile" mutants are dropped;
  3. `cargo test --offline --lib` (hooks off, 163 tests) -> mutants the
     repository's own tests kill are dropped ("killed-by-tests");
  4. the quick checks are run against the survivor, the ones anchored in the
     mutated file first (those at full size, the remaining ones with
     VERIF_SCALE=0.25), until one reports a VIOLATION ("killed-by-check"), an
     INCONCLUSIVE result is noted, or all 20 passed ("survived").

Every mutant that reaches step 4 is appended to mutants/auto/results.jsonl
(file, line, before, after, outcome, check, reason). Survivors are triaged by
hand (equivalent mutant vs. blind spot) in DESIGN.md 8.6.
"""
import json, os, random, re, subprocess, sys, time

MUT = "/tmp/mut"
REPO = f"{MUT}/repo"
VERIF = f"{MUT}/verif"
OUT = "/verif/mutants/auto"

ALL = [f"C{i:02d}" for i in range(1, 21)]
PRIMARY = {
    "src/nfa/noncontiguous.rs": ["C01", "C03", "C02", "C04", "C11", "C09", "C16", "C20"],
    "src/nfa/contiguous.rs": ["C04", "C01", "C03", "C16", "C20", "C09"],
    "src/dfa.rs": ["C04", "C01", "C03", "C09", "C16", "C20"],
    "src/automaton.rs": ["C01", "C03", "C02", "C07", "C08", "C10", "C19", "C14", "C09", "C12", "C05"],
    "src/ahocorasick.rs": ["C13", "C12", "C20", "C04", "C08", "C07", "C09", "C17"],
    "src/util/prefilter.rs": ["C05", "C10", "C19", "C15", "C11"],
    "src/util/buffer.rs": ["C07", "C08", "C18"],
    "src/util/search.rs": ["C10", "C13", "C09"],
    "src/packed": ["C06", "C15", "C10", "C05"],
    "src/util": ["C04", "C20", "C01", "C03", "C05"],
}

OPS = [
    (r" <= ", " < "), (r" < ", " <= "), (r" >= ", " > "), (r" > ", " >= "),
    (r"==", "!="), (r"!=", "=="), (r"&&", "||"), (r"\|\|", "&&"),
    (r"\+ 1\b", "+ 0"), (r"- 1\b", "- 0"), (r"\+ 1\b", "+ 2"), (r"- 1\b", "- 2"),
    (r"\btrue\b", "false"), (r"\bfalse\b", "true"),
    (r"\+=", "-="), (r"(?<=[\w\)\]]) \+ (?=[\w\(])", " - "), (r"(?<=[\w\)\]]) - (?=[\w\(])", " + "),
    (r"\b0\b", "1"), (r"\b1\b", "0"), (r"\b2\b", "3"), (r"\b3\b", "4"), (r"\b4\b", "3"), (r"\b8\b", "7"),
    (r"\b16\b", "15"), (r"\b255\b", "254"), (r"\b256\b", "255"), (r"\b127\b", "126"), (r"\b64\b", "63"),
    (r"\.min\(", ".max("), (r"\.max\(", ".min("),
    (r"\bbreak;", "continue;"), (r"!(?=[a-z_\(])", ""), (r"<<", ">>"), (r">>", "<<"),
    (r"\.wrapping_add\(", ".wrapping_sub("), (r"\.checked_add\(", ".checked_sub("),
    (r"\.saturating_sub\(", ".wrapping_sub("), (r"\bas_usize\(\) \+ ", "as_usize() - "),
    (r"\bis_some\(\)", "is_none()"), (r"\bis_none\(\)", "is_some()"), (r"\bis_empty\(\)", "len() == 1"),
    (r"\bSome\((\w+)\)", r"None"),
]
STMT_DELETE = re.compile(r"^\s+[a-z_][\w\.\[\]]*(\.[a-z_]+)*\s*(=|\+=|-=|\|=|&=)[^=].*;\s*$|^\s+(self\.)?[a-z_][\w\.]*\([^;]*\);\s*$")
SKIP_LINE = re.compile(r"^\s*(//|#\[|\*|use |pub use |mod |pub mod |type |pub type |extern |macro_rules|fn |pub fn |pub\(crate\) fn |impl|struct |pub struct |enum |pub enum |trait |const [A-Z_]+: &str)|debug_assert|assert!|assert_eq!|assert_ne!|unreachable!|panic!|write!|writeln!|debug_struct|debug_tuple|\.field\(|log!|trace!|debug!|crate::verif::|verif::|cfg\(")


def sh(cmd, cwd=None, timeout=None, env=None):
    e = dict(os.environ)
    e.update({"CARGO_NET_OFFLINE": "true"})
    if env:
        e.update(env)
    try:
        p = subprocess.run(cmd, shell=True, cwd=cwd, capture_output=True, text=True, timeout=timeout, env=e)
        return p.returncode, p.stdout + p.stderr
    except subprocess.TimeoutExpired:
        subprocess.run("pkill -9 -f /tmp/mut/repo/target", shell=True)
        return 124, "timeout"


def setup():
    if not os.path.isdir(REPO):
        os.makedirs(MUT, exist_ok=True)
        sh(f"git clone -q /repo {REPO}")
        sh(f"rsync -a --exclude .git --exclude harness/target --exclude harness/fuzz/target /verif/ {VERIF}/")
        sh(f"sed -i 's#path = \"/repo\"#path = \"{REPO}\"#' {VERIF}/harness/Cargo.toml {VERIF}/harness/fuzz/Cargo.toml")
    rc, out = sh("cargo test --offline --lib 2>&1 | grep '^test result'", cwd=REPO, timeout=900)
    assert "163 passed; 0 failed" in out, out
    rc, out = sh("./check --build", cwd=VERIF, timeout=1800)
    assert rc == 0, out[-2000:]


def sites(files):
    res = []
    for f in files:
        lines = open(f"{REPO}/{f}").read().split("\n")
        in_tests = False
        in_debug = 0
        for i, line in enumerate(lines):
            if re.match(r"^(#\[cfg\(test\)\]|mod tests)", line) or (re.match(r"^#\[cfg\(all\(test", line)):
                in_tests = True
            if in_tests:
                continue
            if re.search(r"impl.*(fmt::Debug|fmt::Display|core::fmt)", line):
                in_debug = 1
            if in_debug:
                if line.startswith("}"):
                    in_debug = 0
                continue
            if SKIP_LINE.search(line) or not line.strip() or '"' in line:
                continue
            code = line.split("//")[0]
            for pat, rep in OPS:
                for m in re.finditer(pat, code):
                    new = code[: m.start()] + m.expand(rep) + code[m.end():] + line[len(code):]
                    if new != line:
                        res.append((f, i, line, new))
            if STMT_DELETE.match(code) and "let " not in code and "return" not in code:
                res.append((f, i, line, re.match(r"^\s*", line).group(0) + "/* deleted */"))
    return res


def lib_files():
    out = []
    for root, _, fs in os.walk(f"{REPO}/src"):
        for f in fs:
            p = os.path.relpath(os.path.join(root, f), REPO)
            if not p.endswith(".rs") or p.endswith("tests.rs") or p.endswith("verif.rs") or "/tests/" in p or p == "src/macros.rs":
                continue
            if p in ("src/util/debug.rs", "src/util/error.rs", "src/util/byte_frequencies.rs", "src/transducer.rs"):
                continue
            if "/aarch64" in p or "neon" in p:
                continue
            out.append(p)
    return sorted(out)


def primary_for(f):
    for k in sorted(PRIMARY, key=len, reverse=True):
        if f.startswith(k):
            return PRIMARY[k]
    return ALL


def order_for(f):
    for k in sorted(PRIMARY, key=len, reverse=True):
        if f.startswith(k):
            first = PRIMARY[k]
            return first + [c for c in ALL if c not in first]
    return ALL


def main():
    count = int(sys.argv[1])
    seed = int(sys.argv[2]) if len(sys.argv) > 2 and not sys.argv[2].startswith("--") else 0
    files = None
    for a in sys.argv:
        if a.startswith("--files="):
            files = a.split("=", 1)[1].split(",")
    setup()
    files = files or lib_files()
    ss = sites(files)
    rnd = random.Random(seed)
    rnd.shuffle(ss)
    os.makedirs(OUT, exist_ok=True)
    done = set()
    if os.path.exists(f"{OUT}/results.jsonl"):
        for l in open(f"{OUT}/results.jsonl"):
            o = json.loads(l)
            done.add((o["file"], o["line"], o["after"]))
    stats = {"no-compile": 0, "killed-by-tests": 0, "killed-by-check": 0, "survived": 0, "inconclusive": 0}
    reached = 0
    print(f"{len(ss)} mutation sites in {len(files)} files", flush=True)
    for (f, i, before, after) in ss:
        if reached >= count:
            break
        if (f, i + 1, after.strip()) in done:
            continue
        path = f"{REPO}/{f}"
        src = open(path).read()
        lines = src.split("\n")
        assert lines[i] == before
        lines[i] = after
        open(path, "w").write("\n".join(lines))
        try:
            rc2, out2 = sh("cargo test --offline --lib 2>&1 | grep -E '^test result|^error' | head -3", cwd=REPO, timeout=150)
            if "error" in out2 and "test result" not in out2:
                stats["no-compile"] += 1
                print("pre", json.dumps(stats), flush=True)
                continue
            if "163 passed; 0 failed" not in out2:
                stats["killed-by-tests"] += 1
                print("pre", json.dumps(stats), flush=True)
                continue
            reached += 1
            outcome, check, reason, notes = "survived", None, None, []
            t0 = time.time()
            primary = primary_for(f)
            for c in order_for(f):
                # checks anchored in the mutated file run at full size, the others at a quarter
                env = {"VERIF_SEED": str(seed)}
                if c not in primary:
                    env["VERIF_SCALE"] = "0.25"
                rc, o = sh(f"./check {c} quick", cwd=VERIF, timeout=2400, env=env)
                if rc == 1 and "VIOLATION property=" in o:
                    outcome, check = "killed-by-check", c
                    m = re.search(r"reason: (.*)", o)
                    reason = (m.group(1) if m else o.strip().split("\n")[-1])[:300]
                    break
                if rc != 0:
                    notes.append(f"{c}: rc={rc} {o.strip().splitlines()[-1][:200] if o.strip() else ''}")
            if outcome == "survived" and notes:
                outcome = "inconclusive"
            stats[outcome] += 1
            rec = {"file": f, "line": i + 1, "before": before.strip(), "after": after.strip(), "outcome": outcome, "check": check, "reason": reason, "notes": notes, "seconds": round(time.time() - t0)}
            with open(f"{OUT}/results.jsonl", "a") as fh:
                fh.write(json.dumps(rec) + "\n")
            print(json.dumps(rec), flush=True)
        finally:
            open(path, "w").write(src)
    print("stats", json.dumps(stats), flush=True)


if __name__ == "__main__":
    main()
