//! Byte-level decoding of fuzzer input into structured cases (a hand-written
//! data-provider layer: no derive macros are available offline). The decoder
//! is total: every byte string decodes to a *sound* case for the selected
//! property, so the fuzzer reaches the library instead of dying in input
//! validation. It reuses the recipe types and `realize_*` functions of the
//! proptest generators.

use crate::case::{Case, Cfg, Engine, Mk, Op, PackedCfg, PackedVariant, Sk};
use crate::gen::{self, PatList, PatOp, Piece, SpanRecipe};

pub struct U<'a> {
    data: &'a [u8],
    pos: usize,
}

impl<'a> U<'a> {
    pub fn new(data: &'a [u8]) -> U<'a> {
        U { data, pos: 0 }
    }
    pub fn u8(&mut self) -> u8 {
        let b = self.data.get(self.pos).copied().unwrap_or(0);
        self.pos += 1;
        b
    }
    pub fn u16(&mut self) -> u16 {
        u16::from_le_bytes([self.u8(), self.u8()])
    }
    pub fn below(&mut self, n: usize) -> usize {
        if n <= 1 {
            return 0;
        }
        if n <= 256 {
            (self.u8() as usize * n) >> 8
        } else {
            (self.u16() as usize * n) >> 16
        }
    }
    pub fn bool(&mut self) -> bool {
        self.u8() & 1 == 1
    }
    pub fn bytes(&mut self, max: usize) -> Vec<u8> {
        let n = self.below(max + 1);
        (0..n).map(|_| self.u8()).collect()
    }
    pub fn exhausted(&self) -> bool {
        self.pos >= self.data.len()
    }
}

fn cfg(u: &mut U) -> Cfg {
    Cfg {
        engine: Engine::ALL[u.below(7)],
        mk: Mk::ALL[u.below(3)],
        sk: Sk::ALL[u.below(3)],
        prefilter: u.u8() % 4 != 0,
        dense_depth: [0i64, 1, 2, 3, 8, -1][u.below(6)],
        byte_classes: u.u8() % 4 != 0,
        casei: u.u8() % 4 == 0,
    }
}

fn pat_list(u: &mut U, max_pats: usize) -> PatList {
    match u.below(16) {
        0 => PatList::Single(u.bytes(12)),
        1 => PatList::StartBytes { firsts: { let mut v = u.bytes(2); v.push(u.u8()); v }, tails: (0..1 + u.below(8)).map(|_| (u.u8(), u.bytes(6))).collect() },
        2 | 3 => PatList::RareBytes { rares: { let mut v = u.bytes(2); v.push(u.u8()); v }, items: (0..1 + u.below(9)).map(|_| (u.u8(), u.bytes(6), u.bytes(5), u.u8())).collect() },
        4 => PatList::Packedish((0..3 + u.below(14)).map(|_| { let mut v = u.bytes(6); v.push(u.u8()); v.push(u.u8()); v }).collect()),
        5 => PatList::Adversarial { kind: u.below(6) as u8, k: [1u16, 3, 8, 24, 48, 256, 300][u.below(7)], n: 1 + u.below(12) as u8 },
        6 => {
            let n = [2u16, 3, 5, 126, 127, 128, 129, 253, 254, 255, 256][u.below(11)];
            PatList::Fanout { prefix: u.bytes(3), n, start: gen::fanout_start(n, u.u8(), u.below(10) as u8), tails: u.bytes(3) }
        }
        10 => PatList::Utf8Starts { items: (0..1 + u.below(6)).map(|_| (u.u8(), u.bytes(5))).collect() },
        9 => PatList::DeepNested { unit: { let mut v = u.bytes(1); v.push(u.u8()); v }, n: [3u16, 20, 60, 255, 256, 257, 300][u.below(7)], reverse: u.bool() },
        8 => PatList::LongNested { base: (0..70 + u.below(70)).map(|_| u.u8()).collect(), cuts: (0..1 + u.below(4)).map(|_| (u.u16(), u.bool())).collect(), extra: (0..u.below(4)).map(|_| { let mut v = u.bytes(4); v.push(u.u8()); v.push(u.u8()); v }).collect(), rotate: u.u8() },
        7 => PatList::MidPacked { raws: (0..if u.u8() % 4 == 0 { 60 + u.below(71) } else { 14 + u.below(37) }).map(|_| { let mut v = u.bytes(4); v.push(u.u8()); v.push(u.u8()); v }).collect(), dups: (0..1 + u.below(12)).map(|_| (u.u16(), u.u16())).collect() },
        _ => {
            let n = 1 + u.below(max_pats);
            PatList::General(
                (0..n)
                    .map(|_| {
                        let kind = [0u8, 0, 0, 0, 0, 4, 5, 5, 6, 6, 7, 8, 8, 9, 10, 11, 12, 12, 13][u.below(19)];
                        PatOp { kind, from: u.u16(), a: u.u16(), b: u.u8(), raw: { let mut v = u.bytes(7); v.push(u.u8()); v } }
                    })
                    .collect(),
            )
        }
    }
}

fn pieces(u: &mut U, max: usize) -> Vec<Piece> {
    let n = u.below(max + 1);
    (0..n)
        .map(|_| Piece { kind: [0u8, 0, 0, 2, 2, 2, 4, 4, 5, 6, 7, 8, 9, 10, 11][u.below(15)], idx: u.u16(), a: u.u16(), b: u.u8(), raw: u.bytes(6) })
        .collect()
}

/// Which properties have an in-process check that a fuzz target can drive.
pub const FUZZABLE: [&str; 18] =
    ["C01", "C02", "C03", "C04", "C05", "C06", "C07", "C08", "C09", "C10", "C11", "C12", "C14", "C15", "C16", "C18", "C19", "C20"];

/// Decode bytes into a sound case for `prop`.
pub fn decode(prop: &str, data: &[u8]) -> Case {
    let mut u = U::new(data);
    let mut c = cfg(&mut u);
    let ai = [0usize, 0, 1, 1, 2, 3, 4, 5, 6, 7, 8, 9, 10][u.below(13)];
    let alpha = gen::alphabet(ai);
    let max_pats = match prop {
        "C04" | "C16" => 24,
        "C06" | "C20" => 128,
        _ => 16,
    };
    let plist = pat_list(&mut u, max_pats);
    let mut patterns = gen::realize_patterns(&plist, &alpha);
    let no_empty = matches!(prop, "C06" | "C07" | "C08" | "C18");
    if no_empty {
        gen::strip_empty(&mut patterns, &alpha);
    }
    let size_class = match prop {
        "C05" | "C06" | "C15" | "C19" => 2,
        _ => 1,
    };
    let pcs = pieces(&mut u, if size_class == 2 { 40 } else { 14 });
    let haystack = gen::realize_haystack(&pcs, &patterns, &alpha, size_class);
    let sr = SpanRecipe { mode: [0u8, 0, 1, 1, 1, 2, 3][u.below(7)], a: u.u16(), b: u.u16() };
    let mut span = gen::realize_span(sr, haystack.len());
    let want_anchored = u.bool();
    // ---- coerce to the property's domain
    match prop {
        "C01" => {
            if c.mk == Mk::Standard {
                c.mk = Mk::LeftmostFirst;
            }
        }
        "C02" | "C03" | "C07" | "C08" | "C18" => c.mk = Mk::Standard,
        "C11" => c.casei = true,
        "C13" => {}
        _ => {}
    }
    let mut anchored = match prop {
        "C01" | "C02" | "C03" | "C05" | "C06" | "C07" | "C08" | "C18" | "C12" | "C04" | "C16" | "C20" => false,
        "C09" => true,
        _ => want_anchored,
    };
    if matches!(prop, "C07" | "C08" | "C18" | "C12" | "C05" | "C01" | "C02" | "C03") && c.sk == Sk::Anchored {
        c.sk = Sk::Both;
    }
    if prop == "C09" && c.sk == Sk::Unanchored {
        c.sk = Sk::Both;
    }
    if !c.supports_anchored(anchored) {
        anchored = !anchored;
    }
    if matches!(prop, "C04" | "C16") {
        c.engine = Engine::TopAuto;
        c.sk = Sk::Both;
    }
    if matches!(prop, "C05") {
        c.prefilter = true;
    }
    if matches!(prop, "C06" | "C07" | "C08" | "C18" | "C12" | "C16" | "C20") || (prop == "C06" && span.0 > span.1) {
        if prop != "C06" {
            span = (0, haystack.len());
        }
    }
    if prop == "C06" && span.0 > span.1 {
        span = (span.1, span.1);
    }
    let mut case = Case { prop: prop.to_string(), sub: "fuzz".into(), cfg: c, patterns, haystack, span, anchored, ..Case::default() };
    // ---- property-specific extras
    if matches!(prop, "C06" | "C15") {
        case.patterns.truncate(128);
        case.packed = Some(PackedCfg {
            variant: [PackedVariant::Default, PackedVariant::RabinKarp, PackedVariant::Slim128, PackedVariant::Slim256, PackedVariant::Fat256][u.below(5)],
            leftmost_longest: u.bool(),
            heuristic_limits: u.u8() % 8 == 0,
        });
        if prop == "C06" {
            let minlen = [1usize, 2, 3, 4, 6][u.below(5)];
            for p in case.patterns.iter_mut() {
                let orig = p.clone();
                let mut i = 0;
                while p.len() < minlen {
                    p.push(orig[i % orig.len()]);
                    i += 1;
                }
            }
        }
    }
    if matches!(prop, "C07" | "C08" | "C18") {
        let n = 1 + u.below(5);
        case.reads = (0..n).map(|_| [1usize, 1, 2, 3, 5, 8, 13, 40, usize::MAX][u.below(9)]).collect();
        case.spare = [Some(1usize), Some(1), Some(2), Some(3), Some(7), Some(16), None][u.below(7)];
        let ncuts = u.below(4);
        let len = case.haystack.len();
        if len > 1 {
            let mut cuts: Vec<i64> = (0..ncuts).map(|_| 1 + u.below(len - 1) as i64).collect();
            cuts.sort();
            cuts.dedup();
            case.params = cuts;
        }
    }
    if matches!(prop, "C08" | "C18" | "C12") {
        let np = case.patterns.len();
        case.repl = (0..np)
            .map(|i| match u.below(4) {
                0 => Vec::new(),
                1 => case.patterns[(i + 1) % np].clone(),
                2 => format!("<{}>", i).into_bytes(),
                _ => u.bytes(4).iter().map(|b| b"ab-"[(*b as usize * 3) >> 8]).collect(),
            })
            .collect();
        case.write_chunk = [None, None, Some(1usize), Some(2)][u.below(4)];
    }
    if prop == "C12" {
        case.stop_at = if u.bool() { Some(u.below(6)) } else { None };
        if u.bool() {
            // valid UTF-8 flavour
            const CHARS: &[char] = &['a', 'b', 'x', 'é', '€', '😀', 'A', ' ', '\u{80}', '\u{7ff}', '\u{800}', '\u{ffff}', '\u{10000}', '\u{100000}', '\u{10ffff}'];
            let n = u.below(25);
            let s: String = (0..n).map(|_| CHARS[u.below(CHARS.len())]).collect();
            case.haystack = s.into_bytes();
            case.span = (0, case.haystack.len());
        }
    }
    if prop == "C10" {
        let (mode, pa, pb) = (u.u8(), u.u16(), u.u16());
        crate::props::prefilter::directed_cut(&mut case, mode, pa, pb);
        let pcs2 = pieces(&mut u, 10);
        let mut o = gen::realize_haystack(&pcs2, &case.patterns, &alpha, 1);
        if o.is_empty() {
            o.push(alpha[0]);
        }
        case.outside = (0..case.haystack.len()).map(|i| o[i % o.len()]).collect();
    }
    let _ = Op { handle: 0, api: 0, haystack: vec![], span: (0, 0), anchored: false };
    case
}
