#!/bin/bash
# usage: tools/verify_seeded.sh <CXX> <N> [round]
# Confirms a sub-agent's seeded change in its scratch worktree /tmp/wt-CXX:
#   patch applies, lib tests pass (163), demo fails with the patch and passes without it.
# On success copies patch/demo/notes to /verif/seeded/CXX-N/ (meta.json is written by record_seeded.py).
set -u
ID="$1"; N="$2"; ROUND="${3:-1}"
if [ "$ROUND" = "1" ]; then WT="/tmp/wt-$ID"; OUT="/tmp/out-$ID"; DEST="/verif/seeded/$ID-$N"; else WT="/tmp/wt$ROUND-$ID"; OUT="/tmp/out$ROUND-$ID"; DEST="/verif/seeded/$ID-r$ROUND-$N"; fi
cd "$WT" || exit 2
git checkout -q -- . ; rm -rf examples
git apply --check "$OUT/patch$N.diff" || { echo "FAIL patch does not apply"; exit 1; }
mkdir -p examples && cp "$OUT/demo$N.rs" "examples/demo$N.rs"
# without the patch: demo must pass
if ! cargo run -q --offline --example "demo$N" >/tmp/vs-$ID-$N.clean 2>&1; then echo "FAIL demo does not pass on clean tree"; tail -3 /tmp/vs-$ID-$N.clean; git checkout -q -- .; rm -rf examples; exit 1; fi
git apply "$OUT/patch$N.diff"
tests=$(cargo test --offline --lib 2>&1 | grep "^test result" | head -1)
cargo run -q --offline --example "demo$N" >/tmp/vs-$ID-$N.patched 2>&1; drc=$?
git checkout -q -- . ; rm -rf examples
echo "tests: $tests"
echo "demo with patch: rc=$drc  $(tail -2 /tmp/vs-$ID-$N.patched | tr '\n' ' ' | cut -c1-200)"
case "$tests" in *"163 passed; 0 failed"*) ;; *) echo "FAIL lib tests do not pass with the patch"; exit 1;; esac
[ $drc -ne 0 ] || { echo "FAIL demo does not fail with the patch"; exit 1; }
mkdir -p "$DEST"
cp "$OUT/patch$N.diff" "$DEST/patch.diff"
cp "$OUT/demo$N.rs" "$DEST/demo.rs"
cp "$OUT/notes$N.md" "$DEST/notes.md" 2>/dev/null
echo "OK confirmed $(basename "$DEST")"
