//! The reference model: the definitions of the properties written as
//! quadratic enumeration of occurrences plus a selection rule. It shares no
//! code and no idea with the automaton construction in the library.

use crate::case::Mk;

#[derive(Clone, Copy, Debug, PartialEq, Eq, Hash, PartialOrd, Ord)]
pub struct M {
    pub pat: usize,
    pub start: usize,
    pub end: usize,
}

impl M {
    pub fn len(&self) -> usize {
        self.end - self.start
    }
    pub fn is_empty(&self) -> bool {
        self.end == self.start
    }
}

#[inline]
pub fn fold(b: u8, ci: bool) -> u8 {
    if ci && (b'A'..=b'Z').contains(&b) {
        b + 32
    } else {
        b
    }
}

pub fn eq_fold(a: &[u8], b: &[u8], ci: bool) -> bool {
    a.len() == b.len()
        && a.iter().zip(b.iter()).all(|(&x, &y)| fold(x, ci) == fold(y, ci))
}

/// Occurrence table of a pattern list in a haystack: for every start offset
/// the list of patterns (in supply order) that occur there, anywhere in the
/// haystack. Spans are applied by the selection functions.
pub struct Occ<'a> {
    pub pats: &'a [Vec<u8>],
    pub hay_len: usize,
    /// at[s] = pattern indices occurring at start s, ascending
    pub at: Vec<Vec<u32>>,
}

impl<'a> Occ<'a> {
    pub fn new(pats: &'a [Vec<u8>], hay: &[u8], ci: bool) -> Occ<'a> {
        let mut at = vec![Vec::new(); hay.len() + 1];
        for s in 0..=hay.len() {
            for (i, p) in pats.iter().enumerate() {
                if s + p.len() <= hay.len()
                    && eq_fold(&hay[s..s + p.len()], p, ci)
                {
                    at[s].push(i as u32);
                }
            }
        }
        Occ { pats, hay_len: hay.len(), at }
    }

    fn plen(&self, i: u32) -> usize {
        self.pats[i as usize].len()
    }

    /// All occurrences inside the span (start >= s0, end <= e0).
    pub fn all_in(&self, s0: usize, e0: usize) -> Vec<M> {
        let mut v = Vec::new();
        if s0 > e0 {
            return v;
        }
        for s in s0..=e0 {
            for &i in &self.at[s] {
                let e = s + self.plen(i);
                if e <= e0 {
                    v.push(M { pat: i as usize, start: s, end: e });
                }
            }
        }
        v
    }

    /// The single non-overlapping search.
    pub fn find(
        &self,
        mk: Mk,
        s0: usize,
        e0: usize,
        anchored: bool,
    ) -> Option<M> {
        if s0 > e0 {
            return None;
        }
        let last_start = if anchored { s0 } else { e0 };
        match mk {
            Mk::LeftmostFirst => {
                for s in s0..=last_start {
                    for &i in &self.at[s] {
                        let e = s + self.plen(i);
                        if e <= e0 {
                            return Some(M { pat: i as usize, start: s, end: e });
                        }
                    }
                }
                None
            }
            Mk::LeftmostLongest => {
                for s in s0..=last_start {
                    let mut best: Option<M> = None;
                    for &i in &self.at[s] {
                        let e = s + self.plen(i);
                        if e <= e0 {
                            // strictly longer replaces; ties keep the first
                            if best.map_or(true, |b| e > b.end) {
                                best =
                                    Some(M { pat: i as usize, start: s, end: e });
                            }
                        }
                    }
                    if best.is_some() {
                        return best;
                    }
                }
                None
            }
            Mk::Standard => {
                // argmin (end, -(len), index)
                let mut best: Option<M> = None;
                for s in s0..=last_start {
                    // an occurrence starting after the best end so far ends
                    // after it as well: nothing further can be better
                    if matches!(best, Some(b) if s > b.end) {
                        break;
                    }
                    for &i in &self.at[s] {
                        let e = s + self.plen(i);
                        if e > e0 {
                            continue;
                        }
                        let cand = M { pat: i as usize, start: s, end: e };
                        let better = match best {
                            None => true,
                            Some(b) => {
                                (cand.end, b.len(), cand.pat)
                                    < (b.end, cand.len(), b.pat)
                            }
                        };
                        if better {
                            best = Some(cand);
                        }
                    }
                }
                best
            }
        }
    }

    /// The non-overlapping iterator.
    pub fn iter(
        &self,
        mk: Mk,
        s0: usize,
        e0: usize,
        anchored: bool,
    ) -> Vec<M> {
        let mut out = Vec::new();
        let mut cur = s0;
        let mut last_end: Option<usize> = None;
        loop {
            let mut m = match self.find(mk, cur, e0, anchored) {
                None => break,
                Some(m) => m,
            };
            if m.is_empty() && Some(m.end) == last_end {
                cur += 1;
                m = match self.find(mk, cur, e0, anchored) {
                    None => break,
                    Some(m) => m,
                };
            }
            cur = m.end;
            last_end = Some(m.end);
            out.push(m);
        }
        out
    }

    /// The overlapping sequence (standard semantics): all occurrences ordered
    /// by (end, longest first, supply order). Anchored: only those starting
    /// at s0.
    pub fn overlapping(&self, s0: usize, e0: usize, anchored: bool) -> Vec<M> {
        let mut v: Vec<M> = self
            .all_in(s0, e0)
            .into_iter()
            .filter(|m| !anchored || m.start == s0)
            .collect();
        v.sort_by_key(|m| (m.end, std::cmp::Reverse(m.len()), m.pat));
        v
    }

    /// Whether `m` is a genuine occurrence inside the span.
    pub fn is_occurrence(&self, m: M, s0: usize, e0: usize) -> bool {
        m.start >= s0
            && m.end <= e0
            && m.start <= m.end
            && m.pat < self.pats.len()
            && m.end - m.start == self.pats[m.pat].len()
            && self.at[m.start].contains(&(m.pat as u32))
    }
}

/// bytes variant of replace_all: plain splice of the iterator's matches.
/// `stop_at`: the closure returns false at that match index (the replacement
/// of that match is still appended, then the rest is copied verbatim).
pub fn replace_all_bytes(
    hay: &[u8],
    matches: &[M],
    repl: &[Vec<u8>],
    stop_at: Option<usize>,
) -> Vec<u8> {
    let mut out = Vec::new();
    let mut last = 0;
    for (k, m) in matches.iter().enumerate() {
        out.extend_from_slice(&hay[last..m.start]);
        last = m.end;
        out.extend_from_slice(&repl[m.pat]);
        if stop_at == Some(k) {
            break;
        }
    }
    out.extend_from_slice(&hay[last..]);
    out
}

/// str variant: matches whose bounds are not char boundaries are skipped
/// (the closure is not called for them and they do not count for stop_at...
/// they *are* iterator items, but the closure index counts only calls).
pub fn replace_all_str(
    hay: &str,
    matches: &[M],
    repl: &[String],
    stop_at_call: Option<usize>,
) -> (String, Vec<M>) {
    let mut out = String::new();
    let mut last = 0;
    let mut calls = Vec::new();
    for m in matches.iter() {
        if !hay.is_char_boundary(m.start) || !hay.is_char_boundary(m.end) {
            continue;
        }
        out.push_str(&hay[last..m.start]);
        last = m.end;
        out.push_str(&repl[m.pat]);
        calls.push(*m);
        if stop_at_call == Some(calls.len() - 1) {
            break;
        }
    }
    out.push_str(&hay[last..]);
    (out, calls)
}

#[cfg(test)]
mod tests {
    use super::*;

    fn pats(v: &[&str]) -> Vec<Vec<u8>> {
        v.iter().map(|s| s.as_bytes().to_vec()).collect()
    }

    #[test]
    fn d1() {
        let p = pats(&["abc", ""]);
        let o = Occ::new(&p, b"abx", false);
        assert_eq!(
            o.find(Mk::LeftmostFirst, 0, 3, false),
            Some(M { pat: 1, start: 0, end: 0 })
        );
    }

    #[test]
    fn std_earliest_end() {
        let p = pats(&["b", "abc", "abcd"]);
        let o = Occ::new(&p, b"abcd", false);
        assert_eq!(
            o.find(Mk::Standard, 0, 4, false),
            Some(M { pat: 0, start: 1, end: 2 })
        );
        assert_eq!(
            o.find(Mk::LeftmostFirst, 0, 4, false),
            Some(M { pat: 1, start: 0, end: 3 })
        );
        assert_eq!(
            o.find(Mk::LeftmostLongest, 0, 4, false),
            Some(M { pat: 2, start: 0, end: 4 })
        );
    }

    #[test]
    fn iter_empty_rule() {
        let p = pats(&["a", ""]);
        let o = Occ::new(&p, b"a", false);
        assert_eq!(
            o.iter(Mk::LeftmostFirst, 0, 1, false),
            vec![M { pat: 0, start: 0, end: 1 }]
        );
        let p = pats(&["", "a"]);
        let o = Occ::new(&p, b"a", false);
        assert_eq!(
            o.iter(Mk::LeftmostFirst, 0, 1, false),
            vec![M { pat: 0, start: 0, end: 0 }, M { pat: 0, start: 1, end: 1 }]
        );
    }
}
