#!/bin/bash
# Creates an independent copy of /repo and /verif under /tmp/sweep so that seeded-change sweeps
# (which patch the repository) can run without disturbing development in /repo and /verif.
# Usage: tools/make_sweep_copy.sh ; then: REPO=/tmp/sweep/repo VERIF=/tmp/sweep/verif /tmp/sweep/verif/tools/run_all_seeded.sh 0
set -e
rm -rf /tmp/sweep; mkdir -p /tmp/sweep
git clone -q /repo /tmp/sweep/repo
rsync -a --exclude .git /verif/ /tmp/sweep/verif/
sed -i 's#path = "/repo"#path = "/tmp/sweep/repo"#' /tmp/sweep/verif/harness/Cargo.toml /tmp/sweep/verif/harness/fuzz/Cargo.toml
echo "sweep copy ready (remove with: rm -rf /tmp/sweep)"
