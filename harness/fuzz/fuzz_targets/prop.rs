#![no_main]
//! One coverage-guided target for every fuzzable property. The property is
//! selected by the environment variable VERIF_FUZZ_PROP (read once); the
//! bytes are decoded into a sound structured case and the property's own
//! semantic oracle runs inside the target.
use std::sync::OnceLock;

use acverif::runner::{Ctx, PropDef};
use libfuzzer_sys::fuzz_target;

static DEF: OnceLock<&'static PropDef> = OnceLock::new();

fuzz_target!(|data: &[u8]| {
    let def = DEF.get_or_init(|| {
        let id = std::env::var("VERIF_FUZZ_PROP").unwrap_or_else(|_| "C01".to_string());
        acverif::engine::install_panic_hook();
        acverif::props::by_id(&id).expect("VERIF_FUZZ_PROP names a property")
    });
    // reset the library's (hook) thread-local state at the top of every iteration
    aho_corasick::verif::reset();
    aho_corasick::verif::set_buffer_spare(None);
    aho_corasick::verif::set_step_budget(None);
    let case = acverif::fuzzdec::decode(def.id, data);
    let mut ctx = Ctx::default();
    let check = acverif::props::fuzz_check(def);
    ctx.begin();
    if let Err(reason) = check(&case, &mut ctx) {
        eprintln!("VERIF property={} reason={}", def.id, reason);
        eprintln!("VERIF case={}", serde_json_string(&case));
        std::process::abort();
    }
});

fn serde_json_string(case: &acverif::case::Case) -> String {
    format!("{}", case.to_json())
}
