//! Serializable test cases. A `Case` is the unit that is generated, checked,
//! shrunk, written to a replay file and replayed (bypassing proptest).

use serde::{Deserialize, Serialize};

/// Byte strings are written as escaped ASCII: printable bytes as themselves
/// (except `\`), everything else as `\xNN`. Exact and readable.
pub mod esc {
    use serde::{Deserialize, Deserializer, Serializer};

    pub fn to_string(bytes: &[u8]) -> String {
        let mut s = String::with_capacity(bytes.len());
        for &b in bytes {
            if (0x20..0x7f).contains(&b) && b != b'\\' {
                s.push(b as char);
            } else {
                s.push_str(&format!("\\x{:02x}", b));
            }
        }
        s
    }

    pub fn from_str(s: &str) -> Result<Vec<u8>, String> {
        let b = s.as_bytes();
        let mut out = Vec::with_capacity(b.len());
        let mut i = 0;
        while i < b.len() {
            if b[i] == b'\\' {
                if i + 3 < b.len() + 0 && b[i + 1] == b'x' {
                    let hex = std::str::from_utf8(&b[i + 2..i + 4])
                        .map_err(|e| e.to_string())?;
                    out.push(
                        u8::from_str_radix(hex, 16)
                            .map_err(|e| e.to_string())?,
                    );
                    i += 4;
                } else {
                    return Err(format!("bad escape at {}", i));
                }
            } else {
                out.push(b[i]);
                i += 1;
            }
        }
        Ok(out)
    }

    pub fn serialize<S: Serializer>(v: &Vec<u8>, s: S) -> Result<S::Ok, S::Error> {
        s.serialize_str(&to_string(v))
    }

    pub fn deserialize<'de, D: Deserializer<'de>>(d: D) -> Result<Vec<u8>, D::Error> {
        let s = String::deserialize(d)?;
        from_str(&s).map_err(serde::de::Error::custom)
    }
}

pub mod esc_vec {
    use serde::ser::SerializeSeq;
    use serde::{Deserialize, Deserializer, Serializer};

    pub fn serialize<S: Serializer>(
        v: &Vec<Vec<u8>>,
        s: S,
    ) -> Result<S::Ok, S::Error> {
        let mut seq = s.serialize_seq(Some(v.len()))?;
        for x in v {
            seq.serialize_element(&super::esc::to_string(x))?;
        }
        seq.end()
    }

    pub fn deserialize<'de, D: Deserializer<'de>>(
        d: D,
    ) -> Result<Vec<Vec<u8>>, D::Error> {
        let v = Vec::<String>::deserialize(d)?;
        v.iter()
            .map(|s| super::esc::from_str(s).map_err(serde::de::Error::custom))
            .collect()
    }
}

#[derive(Clone, Copy, Debug, Serialize, Deserialize, PartialEq, Eq, Hash, PartialOrd, Ord)]
pub enum Engine {
    /// `AhoCorasickBuilder::kind(None)`
    TopAuto,
    TopNc,
    TopC,
    TopDfa,
    /// `nfa::noncontiguous::Builder` used through the `Automaton` trait
    LowNc,
    LowC,
    LowDfa,
}

impl Engine {
    pub const ALL: [Engine; 7] = [
        Engine::TopAuto,
        Engine::TopNc,
        Engine::TopC,
        Engine::TopDfa,
        Engine::LowNc,
        Engine::LowC,
        Engine::LowDfa,
    ];
    pub const TOP: [Engine; 4] =
        [Engine::TopAuto, Engine::TopNc, Engine::TopC, Engine::TopDfa];
    pub fn is_top(self) -> bool {
        matches!(
            self,
            Engine::TopAuto | Engine::TopNc | Engine::TopC | Engine::TopDfa
        )
    }
}

#[derive(Clone, Copy, Debug, Serialize, Deserialize, PartialEq, Eq, Hash, PartialOrd, Ord)]
pub enum Mk {
    Standard,
    LeftmostFirst,
    LeftmostLongest,
}

impl Mk {
    pub const ALL: [Mk; 3] =
        [Mk::Standard, Mk::LeftmostFirst, Mk::LeftmostLongest];
    pub fn is_leftmost(self) -> bool {
        !matches!(self, Mk::Standard)
    }
}

#[derive(Clone, Copy, Debug, Serialize, Deserialize, PartialEq, Eq, Hash, PartialOrd, Ord)]
pub enum Sk {
    Unanchored,
    Anchored,
    Both,
}

impl Sk {
    pub const ALL: [Sk; 3] = [Sk::Unanchored, Sk::Anchored, Sk::Both];
    pub fn covers(self, anchored: bool) -> bool {
        match self {
            Sk::Both => true,
            Sk::Unanchored => !anchored,
            Sk::Anchored => anchored,
        }
    }
}

#[derive(Clone, Debug, Serialize, Deserialize, PartialEq, Eq, Hash)]
pub struct Cfg {
    pub engine: Engine,
    pub mk: Mk,
    pub sk: Sk,
    pub prefilter: bool,
    /// usize::MAX is written as -1.
    pub dense_depth: i64,
    pub byte_classes: bool,
    pub casei: bool,
}

impl Default for Cfg {
    fn default() -> Cfg {
        Cfg {
            engine: Engine::TopAuto,
            mk: Mk::Standard,
            sk: Sk::Unanchored,
            prefilter: true,
            dense_depth: 2,
            byte_classes: true,
            casei: false,
        }
    }
}

impl Cfg {
    pub fn dense_depth_usize(&self) -> usize {
        if self.dense_depth < 0 {
            usize::MAX
        } else {
            self.dense_depth as usize
        }
    }
    /// Whether a request with the given anchoring is *supported* (documented
    /// as accepted) by this configuration.
    pub fn supports_anchored(&self, anchored: bool) -> bool {
        match self.engine {
            // The low-level NFAs support both modes whatever was configured.
            Engine::LowNc | Engine::LowC => true,
            _ => self.sk.covers(anchored),
        }
    }
}

#[derive(Clone, Copy, Debug, Serialize, Deserialize, PartialEq, Eq, Hash)]
pub enum PackedVariant {
    Default,
    RabinKarp,
    Slim128,
    Slim256,
    Fat256,
}

#[derive(Clone, Debug, Serialize, Deserialize, PartialEq, Eq, Hash)]
pub struct PackedCfg {
    pub variant: PackedVariant,
    pub leftmost_longest: bool,
    pub heuristic_limits: bool,
}

#[derive(Clone, Debug, Serialize, Deserialize, PartialEq, Eq, Hash)]
pub enum Fault {
    /// the k-th (1-based) call to `read` fails
    Read { k: usize },
    /// the k-th (1-based) call to `write` fails after accepting nothing
    Write { k: usize },
    /// the writer accepts exactly n bytes overall, then fails
    WriteAfterBytes { n: usize },
    /// the writer accepts exactly n bytes overall and then reports Ok(0)
    /// for every further call (a full fixed-size sink such as `&mut [u8]`)
    WriteFullAfterBytes { n: usize },
}

#[derive(Clone, Debug, Serialize, Deserialize, PartialEq, Eq, Hash)]
pub struct Op {
    /// which searcher handle: 0 = original, 1 = clone, 2 = clone of clone
    pub handle: u8,
    /// which API, see props::c17
    pub api: u8,
    #[serde(with = "esc")]
    pub haystack: Vec<u8>,
    pub span: (usize, usize),
    pub anchored: bool,
}

#[derive(Clone, Debug, Default, Serialize, Deserialize, PartialEq, Eq, Hash)]
pub struct Case {
    pub prop: String,
    /// generator class / sub-check that produced the case
    #[serde(default)]
    pub sub: String,
    #[serde(default)]
    pub cfg: Cfg,
    #[serde(with = "esc_vec", default)]
    pub patterns: Vec<Vec<u8>>,
    #[serde(with = "esc", default)]
    pub haystack: Vec<u8>,
    #[serde(default)]
    pub span: (usize, usize),
    #[serde(default)]
    pub anchored: bool,
    #[serde(default, skip_serializing_if = "Vec::is_empty")]
    pub reads: Vec<usize>,
    #[serde(default, skip_serializing_if = "Option::is_none")]
    pub spare: Option<usize>,
    #[serde(with = "esc_vec", default, skip_serializing_if = "Vec::is_empty")]
    pub repl: Vec<Vec<u8>>,
    #[serde(default, skip_serializing_if = "Option::is_none")]
    pub fault: Option<Fault>,
    #[serde(default, skip_serializing_if = "Option::is_none")]
    pub write_chunk: Option<usize>,
    #[serde(default, skip_serializing_if = "Option::is_none")]
    pub packed: Option<PackedCfg>,
    /// C10: replacement content for the bytes outside the span
    #[serde(with = "esc", default, skip_serializing_if = "Vec::is_empty")]
    pub outside: Vec<u8>,
    /// C12: the closure returns false at this (0-based) match index
    #[serde(default, skip_serializing_if = "Option::is_none")]
    pub stop_at: Option<usize>,
    /// C17: operation history; C13: method index in ops[0].api
    #[serde(default, skip_serializing_if = "Vec::is_empty")]
    pub ops: Vec<Op>,
    #[serde(default, skip_serializing_if = "is_zero")]
    pub threads: usize,
    /// free-form numeric parameters for property-specific generators
    #[serde(default, skip_serializing_if = "Vec::is_empty")]
    pub params: Vec<i64>,
    /// filled in when a violation is reported: what was expected / observed
    #[serde(default, skip_serializing_if = "String::is_empty")]
    pub note: String,
}

fn is_zero(v: &usize) -> bool {
    *v == 0
}

impl Case {
    pub fn fingerprint(&self) -> u64 {
        use std::hash::{Hash, Hasher};
        // DefaultHasher::new() uses fixed keys: deterministic across runs.
        let mut h = std::collections::hash_map::DefaultHasher::new();
        self.hash(&mut h);
        h.finish()
    }

    pub fn to_json(&self) -> serde_json::Value {
        serde_json::to_value(self).expect("case serialises")
    }

    pub fn from_json_str(s: &str) -> Result<Case, String> {
        serde_json::from_str(s).map_err(|e| e.to_string())
    }

    /// A short human readable sample form (long byte strings truncated).
    pub fn to_sample(&self) -> serde_json::Value {
        let mut v = self.to_json();
        fn trunc(v: &mut serde_json::Value) {
            match v {
                serde_json::Value::String(s) => {
                    if s.len() > 160 {
                        let cut = (0..=120)
                            .rev()
                            .find(|&i| s.is_char_boundary(i))
                            .unwrap_or(0);
                        let total = s.len();
                        s.truncate(cut);
                        s.push_str(&format!("...<{} chars>", total));
                    }
                }
                serde_json::Value::Array(a) => {
                    if a.len() > 12 {
                        let total = a.len();
                        a.truncate(10);
                        a.push(serde_json::Value::String(format!(
                            "...<{} items>",
                            total
                        )));
                    }
                    for x in a.iter_mut() {
                        trunc(x);
                    }
                }
                serde_json::Value::Object(o) => {
                    for (_, x) in o.iter_mut() {
                        trunc(x);
                    }
                }
                _ => {}
            }
        }
        trunc(&mut v);
        v
    }
}
