pub mod misc;
pub mod packed;
pub mod prefilter;
pub mod purity;
pub mod repr;
pub mod semantic;
pub mod stream;

use crate::runner::PropDef;

pub fn all() -> Vec<&'static PropDef> {
    vec![
        &semantic::C01,
        &semantic::C02,
        &semantic::C03,
        &semantic::C09,
        &semantic::C11,
        &semantic::C14,
        &repr::C04,
        &repr::C16,
        &prefilter::C05,
        &prefilter::C10,
        &packed::C06,
        &packed::C15,
        &stream::C07,
        &stream::C08,
        &stream::C18,
        &misc::C12,
        &misc::C13,
        &purity::C17,
        &misc::C19,
        &misc::C20,
    ]
}

pub fn by_id(id: &str) -> Option<&'static PropDef> {
    all().into_iter().find(|d| d.id == id)
}

/// The in-process check used by the fuzz target (C15's registered check
/// spawns child processes; the target runs its body directly under ASan).
pub fn fuzz_check(def: &'static PropDef) -> crate::runner::CheckFn {
    if def.id == "C15" {
        packed::c15_fuzz_check
    } else {
        def.check
    }
}
