//! C04 (representation never changes results) and C16 (low-level automaton
//! contract). Both explore automata exhaustively per pattern list: every
//! reachable (product) state x all 256 bytes.

use std::collections::{HashMap, VecDeque};

use aho_corasick::{
    automaton::{Automaton, StateID},
    Anchored, Input, Match, MatchKind,
};
use proptest::strategy::BoxedStrategy;

use crate::case::{Case, Cfg, Engine, Mk, Sk};
use crate::engine::{self, anch, guard, input, to_m, Searcher};
use crate::gen::{self, CfgOpts, HayOpts, PatOpts, SearchOpts};
use crate::model::{Occ, M};
use crate::runner::{Ctx, PropDef, Tier, Violation};

const PRODUCT_CAP: usize = 300_000;

#[derive(Clone, Debug, PartialEq, Eq)]
struct Obs {
    dead: bool,
    is_match: bool,
    special: bool,
    pats: Vec<usize>,
}

fn obs<A: Automaton>(a: &A, s: StateID) -> Obs {
    let dead = a.is_dead(s);
    let is_match = a.is_match(s);
    let pats = if is_match {
        (0..a.match_len(s)).map(|i| a.match_pattern(s, i).as_usize()).collect()
    } else {
        Vec::new()
    };
    Obs { dead, is_match, special: a.is_special(s), pats }
}

fn path_to(
    parents: &HashMap<(StateID, StateID), Option<((StateID, StateID), u8)>>,
    mut at: (StateID, StateID),
) -> Vec<u8> {
    let mut bytes = Vec::new();
    while let Some(Some((p, b))) = parents.get(&at) {
        bytes.push(*b);
        at = *p;
    }
    bytes.reverse();
    bytes
}

/// Strong bisimulation on the observables the search loops read. Returns
/// (product states, transitions, complete).
fn bisim<A: Automaton, B: Automaton>(
    ra: &A,
    rb: &B,
    anchored: bool,
    names: (&str, &str),
) -> Result<(u64, u64, bool), String> {
    // exhaustive exploration legitimately follows millions of failure links
    let _suspend = engine::SuspendBudget::new();
    let a = anch(anchored);
    let sa = ra.start_state(a).map_err(|e| format!("{}: start_state({:?}) failed: {}", names.0, a, e))?;
    let sb = rb.start_state(a).map_err(|e| format!("{}: start_state({:?}) failed: {}", names.1, a, e))?;
    let mut parents: HashMap<(StateID, StateID), Option<((StateID, StateID), u8)>> = HashMap::new();
    let mut queue = VecDeque::new();
    parents.insert((sa, sb), None);
    queue.push_back((sa, sb));
    let mut transitions = 0u64;
    let mut complete = true;
    while let Some((x, y)) = queue.pop_front() {
        let (ox, oy) = (obs(ra, x), obs(rb, y));
        if ox.dead != oy.dead || ox.is_match != oy.is_match || ox.pats != oy.pats {
            let w = path_to(&parents, (x, y));
            return Err(format!(
                "{} vs {} (anchored={}) differ after reading {:?}: {:?} vs {:?}",
                names.0,
                names.1,
                anchored,
                crate::case::esc::to_string(&w),
                ox,
                oy
            ));
        }
        for (o, n) in [(&ox, names.0), (&oy, names.1)] {
            if (o.dead || o.is_match) && !o.special {
                let w = path_to(&parents, (x, y));
                return Err(format!(
                    "{}: dead/match state not flagged special after reading {:?}: {:?}",
                    n,
                    crate::case::esc::to_string(&w),
                    o
                ));
            }
        }
        if ox.dead {
            // absorbing is checked by C16; both dead: nothing new reachable
            continue;
        }
        for b in 0..=255u8 {
            transitions += 1;
            let nx = ra.next_state(a, x, b);
            let ny = rb.next_state(a, y, b);
            if !parents.contains_key(&(nx, ny)) {
                if parents.len() >= PRODUCT_CAP {
                    complete = false;
                    continue;
                }
                parents.insert((nx, ny), Some(((x, y), b)));
                queue.push_back((nx, ny));
            }
        }
    }
    Ok((parents.len() as u64, transitions, complete))
}

fn metadata<A: Automaton>(a: &A) -> (usize, Vec<usize>, MatchKind, usize, usize) {
    let n = a.patterns_len();
    let lens = (0..n)
        .map(|i| a.pattern_len(aho_corasick::PatternID::new(i).unwrap()))
        .collect();
    (n, lens, a.match_kind(), a.min_pattern_len(), a.max_pattern_len())
}

/// Class histogram of the trie shape (which contiguous encodings exist).
fn trie_classes(pats: &[Vec<u8>], casei: bool, ctx: &mut Ctx) -> bool {
    use std::collections::BTreeMap;
    #[derive(Default)]
    struct Node {
        kids: BTreeMap<u8, usize>,
        is_match: bool,
    }
    let mut nodes = vec![Node::default()];
    for p in pats {
        let mut cur = 0;
        for &b in p {
            let b = crate::model::fold(b, casei);
            let next = match nodes[cur].kids.get(&b) {
                Some(&n) => n,
                None => {
                    nodes.push(Node::default());
                    let n = nodes.len() - 1;
                    nodes[cur].kids.insert(b, n);
                    n
                }
            };
            cur = next;
        }
        nodes[cur].is_match = true;
    }
    let mut branching = false;
    for n in &nodes {
        let mut k = n.kids.len();
        if casei {
            k += n.kids.keys().filter(|b| b.is_ascii_lowercase()).count();
        }
        if k >= 2 {
            branching = true;
        }
        if k == 1 && !n.is_match {
            ctx.class("trie:one-transition-state");
        } else if k > 127 {
            ctx.class("trie:state->127-transitions");
        } else if k >= 2 && k % 4 == 0 {
            ctx.class("trie:sparse-4k-transitions");
        } else if k >= 2 {
            ctx.class("trie:sparse-4k+r-transitions");
        }
    }
    branching
}

fn sub_cfg(cfg: &Cfg, engine: Engine) -> Cfg {
    Cfg { engine, ..cfg.clone() }
}

/// API-level results of one searcher on one input, for differential
/// comparison between representations.
#[derive(Debug, PartialEq, Eq, Clone)]
struct ApiResults {
    find: Option<M>,
    earliest: Option<M>,
    iter: Vec<M>,
    overlapping: Option<Vec<M>>,
    overlapping_iter: Option<Vec<M>>,
    replace: Option<Vec<u8>>,
    stream: Option<Vec<M>>,
}

fn api_results(s: &Searcher, case: &Case, hay: &[u8], span: (usize, usize), anchored: bool) -> Result<ApiResults, String> {
    let std_kind = case.cfg.mk == Mk::Standard;
    let e = |what: &str, e: aho_corasick::MatchError| format!("{}: supported request returned Err({})", what, e);
    let find = s.try_find(input(hay, span, anchored, false)).map_err(|x| e("find", x))?;
    let earliest = s.try_find(input(hay, span, anchored, true)).map_err(|x| e("earliest", x))?;
    let iter = s.try_find_iter(input(hay, span, anchored, false)).map_err(|x| e("iter", x))?;
    let overlapping = if std_kind {
        Some(s.overlapping_steps(input(hay, span, anchored, false), 1, 100_000).map_err(|x| e("overlapping", x))?)
    } else {
        None
    };
    let overlapping_iter = if std_kind && !anchored {
        Some(s.try_find_overlapping_iter(input(hay, span, false, false)).map_err(|x| e("overlapping_iter", x))?)
    } else {
        None
    };
    let no_empty = case.patterns.iter().all(|p| !p.is_empty());
    // replace_all / stream are unanchored whole-haystack APIs
    let unanchored_ok = case.cfg.supports_anchored(false);
    let replace = if unanchored_ok && !anchored {
        let repl: Vec<Vec<u8>> = (0..case.patterns.len()).map(|i| format!("<{}>", i).into_bytes()).collect();
        Some(s.replace_all_bytes(hay, &repl).map_err(|x| e("replace_all_bytes", x))?)
    } else {
        None
    };
    let stream = if std_kind && no_empty && unanchored_ok && !anchored && !case.patterns.is_empty() {
        let items = s.stream_find(hay).map_err(|x| e("stream_find_iter", x))?;
        let mut v = Vec::new();
        for it in items {
            v.push(it.map_err(|io| format!("stream_find_iter: io error {}", io))?);
        }
        Some(v)
    } else {
        None
    };
    Ok(ApiResults { find, earliest, iter, overlapping, overlapping_iter, replace, stream })
}

fn c04_check(case: &Case, ctx: &mut Ctx) -> Result<(), String> {
    let cfg = &case.cfg;
    let pats = &case.patterns;
    // ---- Oracle A: product exploration against the noncontiguous NFA
    // reference: noncontiguous NFA with the case's options
    let reference = guard(|| engine::build_nc(cfg, pats)).map_err(|p| format!("noncontiguous build panicked: {}", p))??;
    let meta_ref = metadata(&reference);
    let mut states = 0u64;
    let mut transitions = 0u64;
    let mut complete = true;
    let mut run = |r: Result<(u64, u64, bool), String>| -> Result<(), String> {
        let (s, t, c) = r?;
        states += s;
        transitions += t;
        complete &= c;
        Ok(())
    };
    // candidate 1: noncontiguous NFA with the other extreme dense depth
    let alt_dense = Cfg { dense_depth: if cfg.dense_depth == 0 { -1 } else { 0 }, ..cfg.clone() };
    let nc2 = guard(|| engine::build_nc(&alt_dense, pats)).map_err(|p| format!("noncontiguous(alt dense) build panicked: {}", p))??;
    if metadata(&nc2) != meta_ref {
        return Err(format!("metadata differs: noncontiguous {:?} vs alt-dense {:?}", meta_ref, metadata(&nc2)));
    }
    for a in [false, true] {
        run(guard(|| bisim(&reference, &nc2, a, ("noncontiguous", "noncontiguous(alt dense_depth)"))).map_err(|p| format!("panic during product walk nc/nc2: {}", p))?)?;
    }
    // candidate 2: contiguous NFA (dense_depth, byte_classes from the case)
    let c = guard(|| engine::build_c(cfg, pats)).map_err(|p| format!("contiguous build panicked: {}", p))??;
    if metadata(&c) != meta_ref {
        return Err(format!("metadata differs: noncontiguous {:?} vs contiguous {:?}", meta_ref, metadata(&c)));
    }
    for a in [false, true] {
        run(guard(|| bisim(&reference, &c, a, ("noncontiguous", "contiguous"))).map_err(|p| format!("panic during product walk nc/c: {}", p))?)?;
    }
    // candidate 3: DFAs for every start kind
    for sk in Sk::ALL {
        let dcfg = Cfg { sk, ..cfg.clone() };
        let d = guard(|| engine::build_d(&dcfg, pats)).map_err(|p| format!("dfa build panicked: {}", p))??;
        if metadata(&d) != meta_ref {
            return Err(format!("metadata differs: noncontiguous {:?} vs dfa({:?}) {:?}", meta_ref, sk, metadata(&d)));
        }
        for a in [false, true] {
            if !sk.covers(a) {
                continue;
            }
            let name = format!("dfa(start_kind={:?})", sk);
            run(guard(|| bisim(&reference, &d, a, ("noncontiguous", &name))).map_err(|p| format!("panic during product walk nc/dfa: {}", p))?)?;
        }
    }
    ctx.count("product_states", states);
    ctx.count("product_transitions", transitions);
    if !complete {
        ctx.class("product-cap-hit");
    }

    // ---- Oracle B: API-level differential on the generated haystack
    let hay = &case.haystack[..];
    let span = case.span;
    let base_cfg = Cfg { sk: Sk::Both, ..cfg.clone() };
    let baseline = Searcher::build(&sub_cfg(&base_cfg, Engine::TopNc), pats)?;
    let occ = Occ::new(pats, hay, cfg.casei);
    for anchored in [false, true] {
        let want = guard(|| api_results(&baseline, case, hay, span, anchored)).map_err(|p| format!("baseline top-noncontiguous panicked: {}", p))??;
        // the baseline itself is pinned to the model for find/iter
        let mfind = occ.find(cfg.mk, span.0, span.1, anchored);
        if want.find != mfind {
            return Err(format!("top-noncontiguous find (anchored={}) {:?} differs from model {:?}", anchored, want.find, mfind));
        }
        for engine in Engine::ALL {
            for sk in [Sk::Both, if anchored { Sk::Anchored } else { Sk::Unanchored }] {
                if engine == Engine::TopNc && sk == Sk::Both {
                    continue;
                }
                let ecfg = Cfg { engine, sk, ..cfg.clone() };
                let s = Searcher::build(&ecfg, pats)?;
                let ecase = Case { cfg: ecfg.clone(), ..case.clone() };
                let got = guard(|| api_results(&s, &ecase, hay, span, anchored)).map_err(|p| format!("{:?}/{:?} panicked: {}", engine, sk, p))??;
                // with a restrictive start kind some unanchored-only APIs are
                // not applicable; compare what both produced
                let mut w = want.clone();
                if got.replace.is_none() {
                    w.replace = None;
                }
                if got.stream.is_none() {
                    w.stream = None;
                }
                let mut g = got.clone();
                if w.replace.is_none() {
                    g.replace = None;
                }
                if w.stream.is_none() {
                    g.stream = None;
                }
                if g != w {
                    return Err(format!(
                        "API results differ (anchored={}) between top-noncontiguous/Both and {:?}/{:?}: {:?} vs {:?}",
                        anchored, engine, sk, w, g
                    ));
                }
            }
        }
    }
    // Automatic kind selection must be one of the three kinds and behave the
    // same (covered above through Engine::TopAuto).

    let branching = trie_classes(pats, cfg.casei, ctx);
    ctx.class(crate::sem::mk_class(cfg.mk));
    ctx.class(if cfg.byte_classes { "byte-classes:on" } else { "byte-classes:off" });
    ctx.class(&format!("dense-depth:{}", cfg.dense_depth));
    ctx.class(&format!("gen:{}", case.sub));
    if cfg.casei {
        ctx.class("casei");
    }
    if cfg.prefilter {
        ctx.class("prefilter:on");
    }
    if branching && states >= 12 {
        ctx.nontrivial();
    }
    Ok(())
}

fn c04_strategy(tier: Tier) -> BoxedStrategy<Case> {
    gen::search_case(SearchOpts {
        prop: "C04",
        cfg: CfgOpts { engines: vec![Engine::TopAuto], sks: vec![Sk::Both], anchored: 0, casei: 1, ..CfgOpts::default() },
        pats: PatOpts { w_empty: 5, max_class: if tier == Tier::Thorough { 2 } else { 1 }, long: true, w_shapes: 3, w_adversarial: 1, w_fanout: 2 },
        hay: HayOpts { size_class: 1 },
        full_span_only: false,
        alphabets: gen::default_alphabets(),
        no_empty: false,
    })
}

/// Deterministic structured lists through the same check (enumerated): the
/// boundary sizes of the encodings that random generation only meets now and
/// then - states carrying 255/256/257/300 matches (nested lists, both
/// orders), nodes with 127/128/129/255/256 children aligned to the ends of
/// the byte range, and failure chains of 255/256/300 links - each with byte
/// classes on and off, for the three match kinds.
fn c04_extra(_tier: Tier, _seed: u64, ctx: &mut Ctx) -> Result<bool, Violation> {
    use crate::gen::PatList;
    let mut lists: Vec<(String, PatList)> = Vec::new();
    for n in [255u16, 256, 257, 300] {
        for reverse in [false, true] {
            lists.push((format!("deepnested:{}:{}", n, reverse), PatList::DeepNested { unit: vec![0], n, reverse }));
        }
    }
    for n in [127u16, 128, 129, 255, 256] {
        for align in [0u8, 1] {
            lists.push((format!("fanout:{}:{}", n, align), PatList::Fanout { prefix: vec![1, 2, 3], n, start: gen::fanout_start(n, 0, align), tails: vec![1] }));
        }
    }
    for k in [255u16, 256, 300] {
        lists.push((format!("adversarial:2:{}", k), PatList::Adversarial { kind: 2, k, n: 3 }));
    }
    let alpha = gen::alphabet(gen::ALPHA_ABCX);
    let tasks: Vec<(String, Vec<Vec<u8>>, Mk, bool)> = lists
        .iter()
        .flat_map(|(name, l)| {
            let pats = gen::realize_patterns(l, &alpha);
            [(Mk::Standard, true), (Mk::LeftmostFirst, false), (Mk::LeftmostLongest, true), (Mk::Standard, false)].into_iter().map(move |(mk, bc)| (name.clone(), pats.clone(), mk, bc))
        })
        .collect();
    let next = std::sync::atomic::AtomicUsize::new(0);
    let results: Vec<(Ctx, Option<Violation>)> = std::thread::scope(|sc| {
        let hs: Vec<_> = (0..12)
            .map(|_| {
                sc.spawn(|| {
                    let mut c = Ctx::default();
                    loop {
                        let t = next.fetch_add(1, std::sync::atomic::Ordering::Relaxed);
                        if t >= tasks.len() {
                            return (c, None);
                        }
                        let (name, pats, mk, bc) = &tasks[t];
                        let mut hay = Vec::new();
                        for p in pats.iter().rev().take(3) {
                            hay.extend_from_slice(p);
                            hay.push(b'x');
                        }
                        hay.truncate(700);
                        let case = Case {
                            prop: "C04".into(),
                            sub: format!("scenario:structured:{}", name),
                            cfg: Cfg { engine: Engine::TopAuto, mk: *mk, sk: Sk::Both, prefilter: t % 2 == 0, dense_depth: [0i64, 2, -1][t % 3], byte_classes: *bc, casei: false },
                            patterns: pats.clone(),
                            span: (0, hay.len()),
                            haystack: hay,
                            ..Case::default()
                        };
                        if let Err(reason) = crate::runner::run_check(c04_check, &case, &mut c) {
                            return (c, Some(Violation { case, reason }));
                        }
                        c.enumerated += 1;
                    }
                })
            })
            .collect();
        hs.into_iter().map(|h| h.join().expect("structured-list thread")).collect()
    });
    for (c, v) in results {
        ctx.merge(c);
        if let Some(v) = v {
            return Err(v);
        }
    }
    Ok(false)
}

pub const C04: PropDef = PropDef {
    id: "C04",
    rule: "per generated (pattern list, match kind, case-insensitivity, dense depth, byte classes, prefilter): \
(A) breadth-first exploration of the product of the noncontiguous NFA with each other representation (noncontiguous with the opposite dense depth, contiguous NFA, DFA with start kind Unanchored/Anchored/Both) \
from the start state of every supported anchoring over all 256 bytes until closure, comparing is_dead / is_match / the ordered match list at every product state and dead|match => special, plus patterns_len/pattern_len/match_kind/min/max metadata; \
this decides equality for haystacks of every length for that pattern list (counters product_states / product_transitions). \
(B) find/earliest/iter/overlapping steps/overlapping iter/replace_all_bytes/stream results on a generated haystack and span compared between top-level noncontiguous (pinned to the model) and all 7 engines x start kinds. \
A deterministic set of 84 structured lists goes through the same check on every run (enumerated): nested lists giving states with 255/256/257/300 matches in both orders, nodes with 127/128/129/255/256 children aligned to the start or end of the byte range, failure chains of 255/256/300 links, x 3 match kinds x byte classes on/off. \
Non-trivial = the trie has a state with >= 2 transitions and >= 12 product states were explored. Distinct = distinct case fingerprint.",
    assumptions: &[
        "the search loops read only start_state/next_state/is_special/is_dead/is_match/match_len/match_pattern/pattern_len/match_kind (+ prefilter, C05), so agreement on all reachable product states implies equal results",
        "exhaustive per pattern list (up to the 300k product-state cap, class product-cap-hit counts exceptions), sampled over pattern lists",
    ],
    cases_quick: 7_000,
    cases_thorough: 200_000,
    strategy: c04_strategy,
    check: c04_check,
    extra: Some(c04_extra),
    floors: &[
        ("trie:one-transition-state", 3_000),
        ("trie:sparse-4k-transitions", 600),
        ("trie:sparse-4k+r-transitions", 3_000),
        ("trie:state->127-transitions", 50),
        ("byte-classes:off", 600),
        ("byte-classes:on", 3_000),
    ],
};

// ------------------------------------------------------------------ C16

/// Walk every state reachable from every obtainable start state, under both
/// supported anchoring arguments and all 256 bytes, checking the contract.
fn walk<A: Automaton>(a: &A, name: &str, expect_start: [bool; 2]) -> Result<(u64, u64, u64, u64), String> {
    // exhaustive exploration legitimately follows millions of failure links
    let _suspend = engine::SuspendBudget::new();
    let mut starts = Vec::new();
    let mut modes = Vec::new();
    for (i, anchored) in [false, true].into_iter().enumerate() {
        match a.start_state(anch(anchored)) {
            Ok(s) => {
                if !expect_start[i] {
                    return Err(format!("{}: start_state(anchored={}) succeeded but the configuration does not support it", name, anchored));
                }
                if !a.is_start(s) {
                    return Err(format!("{}: start_state(anchored={}) returned a state that is not is_start", name, anchored));
                }
                starts.push(s);
                modes.push(anchored);
            }
            Err(e) => {
                if expect_start[i] {
                    return Err(format!("{}: start_state(anchored={}) failed although supported: {}", name, anchored, e));
                }
            }
        }
    }
    let npats = a.patterns_len();
    let mut seen: HashMap<StateID, ()> = HashMap::new();
    let mut queue = VecDeque::new();
    for s in starts {
        if seen.insert(s, ()).is_none() {
            queue.push_back(s);
        }
    }
    let (mut transitions, mut match_states, mut inherited) = (0u64, 0u64, 0u64);
    while let Some(s) = queue.pop_front() {
        let dead = a.is_dead(s);
        let is_match = a.is_match(s);
        let special = a.is_special(s);
        let start = a.is_start(s);
        if dead && is_match {
            return Err(format!("{}: state {:?} is both dead and match", name, s));
        }
        if (dead || is_match) && !special {
            return Err(format!("{}: dead/match state {:?} is not special", name, s));
        }
        if special && !(dead || is_match || start) {
            return Err(format!("{}: special state {:?} is neither dead, match nor start", name, s));
        }
        if is_match {
            match_states += 1;
            let n = a.match_len(s);
            if n == 0 {
                return Err(format!("{}: match state {:?} has match_len 0", name, s));
            }
            let mut ids = Vec::with_capacity(n);
            for i in 0..n {
                let p = a.match_pattern(s, i).as_usize();
                if p >= npats {
                    return Err(format!("{}: match state {:?} lists pattern {} >= patterns_len {}", name, s, p, npats));
                }
                ids.push(p);
            }
            let lens: Vec<usize> = ids.iter().map(|&p| a.pattern_len(aho_corasick::PatternID::new(p).unwrap())).collect();
            if lens.first() != lens.last() {
                inherited += 1;
            }
        }
        for &anchored in &modes {
            for b in 0..=255u8 {
                transitions += 1;
                let n = a.next_state(anch(anchored), s, b);
                if dead && !a.is_dead(n) {
                    return Err(format!("{}: dead state {:?} is not absorbing on byte {:#04x} (anchored={})", name, s, b, anchored));
                }
                if seen.insert(n, ()).is_none() {
                    if seen.len() > PRODUCT_CAP {
                        return Ok((seen.len() as u64, transitions, match_states, inherited));
                    }
                    queue.push_back(n);
                }
            }
        }
    }
    Ok((seen.len() as u64, transitions, match_states, inherited))
}

/// The caller-written unanchored search loop transcribed from the
/// `Automaton` trait documentation.
fn documented_find<A: Automaton>(aut: &A, haystack: &[u8]) -> Result<Option<Match>, aho_corasick::MatchError> {
    let mut sid = aut.start_state(Anchored::No)?;
    let mut at = 0;
    let mut mat = None;
    let get_match = |sid, at: usize| {
        let pid = aut.match_pattern(sid, 0);
        let len = aut.pattern_len(pid);
        Match::new(pid, (at - len)..at)
    };
    if aut.is_match(sid) {
        mat = Some(get_match(sid, at));
        if matches!(aut.match_kind(), MatchKind::Standard) {
            return Ok(mat);
        }
    }
    while at < haystack.len() {
        sid = aut.next_state(Anchored::No, sid, haystack[at]);
        if aut.is_special(sid) {
            if aut.is_dead(sid) {
                return Ok(mat);
            } else if aut.is_match(sid) {
                mat = Some(get_match(sid, at + 1));
                if matches!(aut.match_kind(), MatchKind::Standard) {
                    return Ok(mat);
                }
            }
        }
        at += 1;
    }
    Ok(mat)
}

fn c16_one<A: Automaton>(a: &A, name: &str, expect_start: [bool; 2], case: &Case, ctx: &mut Ctx) -> Result<(u64, u64), String> {
    let (states, transitions, match_states, inherited) =
        guard(|| walk(a, name, expect_start)).map_err(|p| format!("{}: panic while walking: {}", name, p))??;
    ctx.count("states", states);
    ctx.count("transitions", transitions);
    ctx.count("match_states", match_states);
    // caller-written loop vs built-in search (unanchored, whole haystack and
    // every suffix start is covered by sub-slicing the haystack)
    // haystacks: the generated one, plus the longest / last / first pattern
    // embedded in filler bytes (so that each pattern is searched for from the
    // start state at least once)
    let mut hays: Vec<Vec<u8>> = vec![case.haystack.clone()];
    if expect_start[0] && !case.patterns.is_empty() {
        let longest = case.patterns.iter().max_by_key(|p| p.len()).unwrap();
        for p in [longest, &case.patterns[case.patterns.len() - 1], &case.patterns[0]] {
            if p.is_empty() {
                continue;
            }
            let filler = (0..=255u8).rev().find(|b| !p.contains(b)).unwrap_or(b'Z');
            let mut h = vec![filler; 3];
            h.extend_from_slice(p);
            h.extend_from_slice(&[filler; 2]);
            h.extend_from_slice(&p[..p.len() / 2]);
            hays.push(h);
        }
    }
    for hay_owned in if expect_start[0] { &hays[..] } else { &hays[..0] } {
        let occ = Occ::new(&case.patterns, hay_owned, case.cfg.casei);
        let hay = &hay_owned[..];
        let mine = guard(|| documented_find(a, hay)).map_err(|p| format!("{}: documented loop panicked: {}", name, p))?
            .map_err(|e| format!("{}: documented loop returned Err({})", name, e))?
            .map(to_m);
        let built_in = guard(|| a.try_find(&Input::new(hay))).map_err(|p| format!("{}: try_find panicked: {}", name, p))?
            .map_err(|e| format!("{}: try_find returned Err({})", name, e))?
            .map(to_m);
        if mine != built_in {
            return Err(format!("{}: documented caller loop {:?} differs from built-in try_find {:?}", name, mine, built_in));
        }
        let model = occ.find(case.cfg.mk, 0, hay.len(), false);
        if mine != model {
            return Err(format!("{}: documented caller loop {:?} differs from the model {:?}", name, mine, model));
        }
    }
    Ok((match_states, inherited))
}

fn c16_check(case: &Case, ctx: &mut Ctx) -> Result<(), String> {
    let cfg = &case.cfg;
    let pats = &case.patterns;
    let mut inherited_total = 0;
    let mut match_total = 0;
    let nc = guard(|| engine::build_nc(cfg, pats)).map_err(|p| format!("noncontiguous build panicked: {}", p))??;
    let (m, i) = c16_one(&nc, "noncontiguous", [true, true], case, ctx)?;
    match_total += m;
    inherited_total += i;
    let c = guard(|| engine::build_c(cfg, pats)).map_err(|p| format!("contiguous build panicked: {}", p))??;
    let (m, i) = c16_one(&c, "contiguous", [true, true], case, ctx)?;
    match_total += m;
    inherited_total += i;
    for sk in Sk::ALL {
        let dcfg = Cfg { sk, ..cfg.clone() };
        let d = guard(|| engine::build_d(&dcfg, pats)).map_err(|p| format!("dfa build panicked: {}", p))??;
        let name = format!("dfa(start_kind={:?})", sk);
        let (m, i) = c16_one(&d, &name, [sk.covers(false), sk.covers(true)], case, ctx)?;
        match_total += m;
        inherited_total += i;
    }
    ctx.class(crate::sem::mk_class(cfg.mk));
    ctx.class(&format!("gen:{}", case.sub));
    if cfg.prefilter {
        ctx.class("prefilter:on");
    }
    if cfg.casei {
        ctx.class("casei");
    }
    if inherited_total > 0 {
        ctx.class("inherited-match-present");
    }
    if match_total > 0 && inherited_total > 0 {
        ctx.nontrivial();
    }
    Ok(())
}

fn c16_strategy(tier: Tier) -> BoxedStrategy<Case> {
    gen::search_case(SearchOpts {
        prop: "C16",
        cfg: CfgOpts { engines: vec![Engine::LowNc], sks: vec![Sk::Both], anchored: 0, casei: 1, ..CfgOpts::default() },
        pats: PatOpts { w_empty: 5, max_class: if tier == Tier::Thorough { 2 } else { 1 }, long: true, w_shapes: 4, w_adversarial: 1, w_fanout: 1 },
        hay: HayOpts { size_class: 1 },
        full_span_only: true,
        alphabets: gen::default_alphabets(),
        no_empty: false,
    })
}

pub const C16: PropDef = PropDef {
    id: "C16",
    rule: "per generated (pattern list, builder options): for noncontiguous NFA, contiguous NFA and DFA (start kind Unanchored/Anchored/Both) a breadth-first walk of every state reachable from every obtainable start state \
under next_state(a, s, b) for every supported anchoring argument a and all 256 bytes b (exhaustive per automaton; counters states/transitions), checking: no panic, dead absorbing, dead|match => special, special => dead|match|start, not dead&match, \
match_len >= 1, pattern ids < patterns_len and not repeated, pattern lengths non-increasing along a match list, start_state fails exactly for unsupported anchoring and returns an is_start state; \
plus the caller-written unanchored loop transcribed from the trait documentation vs Automaton::try_find vs the model on the generated haystack and on three haystacks that embed the longest, last and first pattern in filler bytes. \
Non-trivial = the automaton has a match state whose list contains an inherited (shorter) pattern. Distinct = distinct case fingerprint.",
    assumptions: &[
        "next_state is only called with anchoring arguments for which start_state succeeds (the documentation allows a panic otherwise)",
        "exhaustive per automaton, sampled over pattern lists",
    ],
    cases_quick: 16_000,
    cases_thorough: 400_000,
    strategy: c16_strategy,
    check: c16_check,
    extra: None,
    floors: &[("inherited-match-present", 2_000), ("kind:standard", 3_000), ("prefilter:on", 5_000)],
};
