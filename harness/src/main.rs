use acverif::runner::{self, Tier};

fn usage() -> ! {
    eprintln!("usage: acverif run <ID> quick|thorough | acverif replay <ID> <file> | acverif list");
    std::process::exit(2)
}

fn main() {
    let args: Vec<String> = std::env::args().collect();
    if args.len() < 2 {
        usage();
    }
    acverif::engine::install_panic_hook();
    let seed: u64 = std::env::var("VERIF_SEED")
        .ok()
        .and_then(|s| s.trim().parse::<i64>().ok())
        .map(|v| v as u64)
        .unwrap_or(0);
    match args[1].as_str() {
        "list" => {
            for d in acverif::props::all() {
                println!("{}", d.id);
            }
        }
        "run" => {
            if args.len() < 4 {
                usage();
            }
            let def = acverif::props::by_id(&args[2]).unwrap_or_else(|| {
                eprintln!("unknown property {}", args[2]);
                std::process::exit(2)
            });
            let tier = match args[3].as_str() {
                "quick" => Tier::Quick,
                "thorough" => Tier::Thorough,
                _ => usage(),
            };
            std::process::exit(runner::run_property(def, tier, seed));
        }
        "replay" => {
            if args.len() < 4 {
                usage();
            }
            let def = acverif::props::by_id(&args[2]).unwrap_or_else(|| {
                eprintln!("unknown property {}", args[2]);
                std::process::exit(2)
            });
            std::process::exit(runner::replay_file(def, std::path::Path::new(&args[3])));
        }
        "fuzzable" => {
            // exit 0 iff the property has a fuzz target
            let ok = args.get(2).map_or(false, |id| acverif::fuzzdec::FUZZABLE.contains(&id.as_str()));
            std::process::exit(if ok { 0 } else { 1 });
        }
        "gen-corpus" => {
            // gen-corpus <ID> <dir> <n>: deterministic pseudo-random byte files (a pure function of VERIF_SEED)
            let id = &args[2];
            let dir = std::path::Path::new(&args[3]);
            let n: usize = args[4].parse().unwrap();
            std::fs::create_dir_all(dir).unwrap();
            use proptest::prelude::*;
            use proptest::strategy::ValueTree;
            let mut runner = proptest::test_runner::TestRunner::new_with_rng(
                proptest::test_runner::Config { failure_persistence: None, ..Default::default() },
                runner::worker_rng(seed, id, 999),
            );
            let strat = proptest::collection::vec(any::<u8>(), 16..=700);
            for i in 0..n {
                let v = strat.new_tree(&mut runner).unwrap().current();
                std::fs::write(dir.join(format!("seed-{:04}", i)), v).unwrap();
            }
        }
        "decode-artifact" => {
            // decode-artifact <ID> <artifact> <out.json>
            let data = std::fs::read(&args[3]).unwrap();
            let mut case = acverif::fuzzdec::decode(&args[2], &data);
            case.note = format!("decoded from libFuzzer artifact {}", args[3]);
            std::fs::write(&args[4], serde_json::to_string_pretty(&case.to_json()).unwrap()).unwrap();
        }
        "merge-fuzz" => {
            // merge-fuzz <ID> <fuzz.json>: add a fuzz block to the evidence file written by this invocation
            let path = runner::verif_root().join("evidence").join(format!("{}.json", args[2]));
            let mut ev: serde_json::Value = serde_json::from_str(&std::fs::read_to_string(&path).unwrap()).unwrap();
            let fz: serde_json::Value = serde_json::from_str(&std::fs::read_to_string(&args[3]).unwrap()).unwrap();
            if fz["violations"].as_u64().unwrap_or(0) > 0 {
                ev["violations"] = serde_json::json!(ev["violations"].as_u64().unwrap_or(0) + fz["violations"].as_u64().unwrap());
            }
            if let Some(w) = fz["wall_s"].as_f64() {
                ev["wall_s"] = serde_json::json!(ev["wall_s"].as_f64().unwrap_or(0.0) + w);
            }
            ev["coverage"]["fuzz"] = fz;
            std::fs::write(&path, serde_json::to_string_pretty(&ev).unwrap()).unwrap();
        }
        "c15-child" => {
            // c15-child <tier> <seed> <worker> <cases> <out> <crumb>
            let tier = if args[2] == "thorough" { Tier::Thorough } else { Tier::Quick };
            let seed: u64 = args[3].parse().unwrap();
            let worker: u64 = args[4].parse().unwrap();
            let cases: u64 = args[5].parse().unwrap();
            std::process::exit(acverif::props::packed::c15_child(
                tier,
                seed,
                worker,
                cases,
                std::path::Path::new(&args[6]),
                std::path::Path::new(&args[7]),
            ));
        }
        "c15-one" => {
            std::process::exit(acverif::props::packed::c15_one(std::path::Path::new(&args[2])));
        }
        _ => usage(),
    }
}
