#!/bin/bash
# usage: tools/run_all_seeded.sh [seed]   -- runs every seeded change against the quick check of its own property
# and writes seeded/<id>/result-seed<seed>.txt (CAUGHT / MISSED / INCONCLUSIVE line).
VERIF="${VERIF:-/verif}"; export VERIF
cd "$VERIF"
SEED="${1:-0}"
for d in seeded/C*-*/; do
    name=$(basename "$d"); prop=${name%%-*}
    line=$(VERIF_SEED=$SEED tools/try_patch.sh "$d/patch.diff" "$prop" 2>&1 | tail -1)
    echo "$name  $line"
    echo "$line" > "$d/result-seed$SEED.txt"
done
