//! C05 (prefilters are transparent) and C10 (span == sub-slice; bytes
//! outside the span are irrelevant).

use aho_corasick::Span;
use proptest::prelude::*;
use proptest::strategy::{BoxedStrategy, Union};

use crate::case::{Case, Cfg, Engine, Mk};
use crate::engine::{guard, input, prefilter_class, to_m, Searcher};
use crate::gen::{self, CfgOpts, HayOpts, PatOpts, SearchOpts};
use crate::model::{fold, Occ, M};
use crate::runner::{Ctx, PropDef, Tier};
use crate::sem::{self, Flags};

// ------------------------------------------------------------------ C05

/// A position in the span holds a byte equal (after folding) to the first
/// byte of a pattern, or to any byte of a pattern, but no occurrence starts
/// there: a prefilter candidate that is not a match.
fn has_false_candidate(case: &Case, occ: &Occ) -> bool {
    let ci = case.cfg.casei;
    let (s0, e0) = case.span;
    if s0 > e0 {
        return false;
    }
    let mut bytes = [false; 256];
    for p in &case.patterns {
        for &b in p {
            bytes[fold(b, ci) as usize] = true;
        }
    }
    (s0..e0).any(|i| {
        bytes[fold(case.haystack[i], ci) as usize]
            && occ.at[i].iter().all(|&p| i + case.patterns[p as usize].len() > e0)
    })
}

fn c05_check(case: &Case, ctx: &mut Ctx) -> Result<(), String> {
    if case.anchored {
        return Err("C05 case with anchoring (unsound case: prefilters are unanchored-only)".into());
    }
    let on_cfg = Cfg { prefilter: true, ..case.cfg.clone() };
    let off_cfg = Cfg { prefilter: false, ..case.cfg.clone() };
    let on = Searcher::build(&on_cfg, &case.patterns)?;
    let off = Searcher::build(&off_cfg, &case.patterns)?;
    let on_case = Case { cfg: on_cfg.clone(), ..case.clone() };
    let off_case = Case { cfg: off_cfg, ..case.clone() };
    // Both are compared with the model; since the model is a function, equal
    // to the model on both sides implies equal to each other (differential),
    // and a bug common to both paths is still seen.
    let f_on = sem::check_semantics(&on, &on_case, Flags::ALL, ctx).map_err(|e| format!("prefilter(true): {}", e))?;
    let _f_off = sem::check_semantics(&off, &off_case, Flags::ALL, ctx).map_err(|e| format!("prefilter(false): {}", e))?;
    sem::common_classes(&on_case, &f_on, ctx);
    let pc = prefilter_class(&on_cfg, &case.patterns);
    ctx.class(&format!("prefilter:{}", pc));
    let occ = Occ::new(&case.patterns, &case.haystack, case.cfg.casei);
    let false_cand = has_false_candidate(case, &occ);
    let after32 = occ.all_in(case.span.0, case.span.1).iter().any(|m| m.start >= case.span.0 + 32);
    if after32 {
        ctx.class("match-starting->=32-bytes-into-span");
    }
    if false_cand {
        ctx.class("false-candidate-present");
    }
    let has_pre = !matches!(pc.as_str(), "none" | "off" | "build-failed");
    if has_pre && false_cand && f_on.occurrences >= 1 {
        ctx.nontrivial();
        ctx.class(&format!("nontrivial:{}", pc));
    }
    Ok(())
}

fn c05_strategy(_tier: Tier) -> BoxedStrategy<Case> {
    let mk = |size_class: u8, w_shapes: u32| {
        gen::search_case(SearchOpts {
            prop: "C05",
            cfg: CfgOpts { anchored: 0, casei: 1, prefilter_always: true, sks: vec![crate::case::Sk::Unanchored, crate::case::Sk::Both], ..CfgOpts::default() },
            pats: PatOpts { w_empty: 1, max_class: 1, long: true, w_shapes, w_adversarial: 1, w_fanout: 0 },
            hay: HayOpts { size_class },
            full_span_only: false,
            alphabets: vec![
                (30, gen::ALPHA_TEXT),
                (15, gen::ALPHA_ABCX),
                (10, gen::ALPHA_AB),
                (12, gen::ALPHA_CASE),
                (10, gen::ALPHA_NYBBLE),
                (10, gen::ALPHA_FULL),
                (8, gen::ALPHA_UTF8),
                (5, gen::ALPHA_HIGHCASE),
                (4, gen::ALPHA_ONEHIGH),
                (4, gen::ALPHA_EDGES),
            ],
            no_empty: false,
        })
    };
    Union::new_weighted(vec![(6, mk(2, 30)), (2, mk(3, 30)), (2, mk(1, 10))]).boxed()
}

/// Deterministic sweep through the top-level searcher: pattern sets that
/// select the packed prefilter in its slim (8 patterns) and fat (40 patterns)
/// flavour with shortest pattern 2, 3 and 4 bytes, every haystack length
/// 0..=100, a pattern planted at every offset, prefilter on vs off vs model.
fn c05_extra(tier: Tier, _seed: u64, total: &mut Ctx) -> Result<bool, crate::runner::Violation> {
    use crate::case::{Engine, Sk};
    let max_len = if tier == Tier::Thorough { 140 } else { 100 };
    let mut tasks: Vec<(Vec<Vec<u8>>, Cfg)> = Vec::new();
    for npats in [8usize, 40] {
        for minlen in [2usize, 3, 4, 17] {
            if minlen > 4 && npats != 8 {
                continue;
            }
            // distinct first bytes, bytes chosen so that neighbouring
            // positions do not look like first bytes of the same bucket
            let pats: Vec<Vec<u8>> = (0..npats)
                .map(|i| {
                    let a = b'a' + (i % 26) as u8;
                    let b = b'0' + (i % 10) as u8;
                    let c = b'A' + ((i * 7) % 26) as u8;
                    // (no byte common to all patterns: a shared rare byte would
                    // select the rare-byte prefilter instead of the packed one)
                    let mut p = vec![a, b, c, b'!' + (i % 14) as u8, a, b':' + (i % 6) as u8];
                    let target = if i == 0 { minlen } else { minlen + (i % 3) };
                    while p.len() < target {
                        p.push(b"etaoinsrhld"[(i + p.len()) % 11]);
                    }
                    p.truncate(target);
                    if i >= 26 {
                        p[0] = 0x80 + i as u8;
                    }
                    p
                })
                .collect();
            for mk in [Mk::LeftmostFirst, Mk::LeftmostLongest] {
                for engine in [Engine::TopDfa, Engine::TopC] {
                    tasks.push((pats.clone(), Cfg { engine, mk, sk: Sk::Unanchored, prefilter: true, dense_depth: 2, byte_classes: true, casei: false }));
                }
            }
        }
    }
    let results: Vec<(Ctx, Option<crate::runner::Violation>)> = std::thread::scope(|sc| {
        let hs: Vec<_> = tasks
            .iter()
            .map(|(pats, cfg)| {
                sc.spawn(move || {
                    let mut ctx = Ctx::default();
                    let mk_case = |hay: Vec<u8>, span: (usize, usize)| Case { prop: "C05".into(), sub: "sweep".into(), cfg: cfg.clone(), patterns: pats.clone(), haystack: hay, span, ..Case::default() };
                    let on = match Searcher::build(cfg, pats) {
                        Ok(s) => s,
                        Err(e) => return (ctx, Some(crate::runner::Violation { case: mk_case(vec![], (0, 0)), reason: e })),
                    };
                    let off = match Searcher::build(&Cfg { prefilter: false, ..cfg.clone() }, pats) {
                        Ok(s) => s,
                        Err(e) => return (ctx, Some(crate::runner::Violation { case: mk_case(vec![], (0, 0)), reason: e })),
                    };
                    let pc = prefilter_class(cfg, pats);
                    for len in 0..=max_len {
                        for (pi, p) in pats.iter().enumerate().take(6) {
                            if p.len() > len {
                                continue;
                            }
                            for off_ in 0..=(len - p.len()) {
                                let mut h = vec![b'Z'; len];
                                h[off_..off_ + p.len()].copy_from_slice(p);
                                // full span and one span that starts 7 bytes in
                                for span in [(0usize, len), (7.min(len), len)] {
                                    let occ = Occ::new(pats, &h, false);
                                    let want = occ.find(cfg.mk, span.0, span.1, false);
                                    for (name, s) in [("prefilter(true)", &on), ("prefilter(false)", &off)] {
                                        let got = guard(|| s.try_find(input(&h, span, false, false)));
                                        let ok = matches!(&got, Ok(Ok(g)) if *g == want);
                                        if !ok {
                                            let case = mk_case(h.clone(), span);
                                            return (ctx, Some(crate::runner::Violation { case, reason: format!("sweep ({}, pattern {} planted at {}): {}: expected {:?}, got {:?}", pc, pi, off_, name, want, got.map(|r| r.map_err(|e| e.to_string()))) }));
                                        }
                                    }
                                    ctx.evals += 1;
                                    ctx.enumerated += 1;
                                }
                            }
                        }
                    }
                    ctx.class(&format!("sweep:prefilter:{}", pc));
                    (ctx, None)
                })
            })
            .collect();
        hs.into_iter().map(|h| h.join().expect("sweep thread")).collect()
    });
    let mut violation = None;
    for (c, v) in results {
        total.merge(c);
        if violation.is_none() {
            violation = v;
        }
    }
    match violation {
        Some(v) => Err(v),
        None => Ok(true),
    }
}

pub const C05: PropDef = PropDef {
    id: "C05",
    rule: "pattern lists shaped to select each prefilter variant (single pattern -> memmem; <=3 ASCII first bytes -> start-bytes 1/2/3; >3 first bytes with <=3 rare bytes at interior offsets incl. offsets 240..254 -> rare-bytes 1/2/3; \
>=3 first bytes, min len >= 2, <=16 patterns, leftmost kind -> packed/Teddy) plus unconstrained lists; haystacks of 0..4K bytes built from whole/partial/altered patterns, lone candidate bytes and candidate-free runs; random spans; case-insensitive mix. \
For each case the same searcher is built with prefilter(true) and prefilter(false); find, find_iter, overlapping steps + iterator (resumed searches), is_match are compared with the reference model on both (hence with each other); earliest mode is checked with the C14 validity predicate on both. \
A deterministic sweep (enumerated) drives pattern sets that select the packed prefilter in its slim (8 patterns) and fat (40 patterns) flavour with shortest pattern 2/3/4 bytes (and 17 bytes, slim only: the Rabin-Karp fallback covers spans up to 19 bytes there) through the top-level searcher: every haystack length 0..100 x 6 patterns x every plant offset x {full span, span starting 7 bytes in} x prefilter on/off vs the model. The selected variant is read from the Debug output of Automaton::prefilter() for classification only. \
Non-trivial = a prefilter was selected, the span contains a candidate byte position where no occurrence starts, and at least one occurrence exists. Distinct = distinct case fingerprint.",
    assumptions: &[
        "earliest-mode results are specified only as a validity predicate (C14); a packed prefilter legitimately returns the full leftmost match in earliest mode, so on/off equality is not demanded there",
        "variant classification depends on Debug formatting; it never produces a violation",
    ],
    cases_quick: 200_000,
    cases_thorough: 3_000_000,
    strategy: c05_strategy,
    check: c05_check,
    extra: Some(c05_extra),
    floors: &[
        ("prefilter:Memmem", 500),
        ("prefilter:StartBytesOne", 500),
        ("prefilter:StartBytesTwo", 500),
        ("prefilter:StartBytesThree", 500),
        ("prefilter:RareBytesOne", 500),
        ("prefilter:RareBytesTwo", 500),
        ("prefilter:RareBytesThree", 500),
        ("prefilter:Packed", 500),
        ("match-starting->=32-bytes-into-span", 10_000),
    ],
};

// ------------------------------------------------------------------ C10

#[derive(Debug, PartialEq, Eq, Clone)]
struct SpanResults {
    find: Option<M>,
    earliest: Option<M>,
    iter: Vec<M>,
    overlapping: Option<Vec<M>>,
    is_match: Option<bool>,
}

fn shift(m: M, by: usize) -> M {
    M { pat: m.pat, start: m.start + by, end: m.end + by }
}

fn span_results(s: &Searcher, cfg: &Cfg, hay: &[u8], span: (usize, usize), anchored: bool) -> Result<SpanResults, String> {
    let e = |what: &str, e: aho_corasick::MatchError| format!("{}: supported request returned Err({})", what, e);
    let find = s.try_find(input(hay, span, anchored, false)).map_err(|x| e("find", x))?;
    let earliest = s.try_find(input(hay, span, anchored, true)).map_err(|x| e("earliest", x))?;
    let iter = s.try_find_iter(input(hay, span, anchored, false)).map_err(|x| e("iter", x))?;
    let overlapping = if cfg.mk == Mk::Standard {
        Some(s.overlapping_steps(input(hay, span, anchored, false), 1, 1_000_000).map_err(|x| e("overlapping", x))?)
    } else {
        None
    };
    let is_match = match s {
        Searcher::Top(a) => Some(a.is_match(input(hay, span, anchored, false))),
        _ => None,
    };
    Ok(SpanResults { find, earliest, iter, overlapping, is_match })
}

fn check_inside(what: &str, r: &SpanResults, span: (usize, usize)) -> Result<(), String> {
    let all = r.find.iter().chain(r.earliest.iter()).chain(r.iter.iter()).chain(r.overlapping.iter().flatten());
    for m in all {
        if m.start < span.0 || m.end > span.1 || m.start > m.end {
            return Err(format!("{}: match {:?} not inside the span {:?}", what, m, span));
        }
    }
    Ok(())
}

fn rewritten(case: &Case) -> Vec<u8> {
    let (s, e) = case.span;
    let mut h2 = case.haystack.clone();
    for i in 0..h2.len() {
        let inside = s <= e && i >= s && i < e;
        if !inside {
            if let Some(&b) = case.outside.get(i) {
                h2[i] = b;
            }
        }
    }
    h2
}

fn c10_check(case: &Case, ctx: &mut Ctx) -> Result<(), String> {
    if !case.cfg.supports_anchored(case.anchored) {
        return Err("unsound case: unsupported anchoring".into());
    }
    let cfg = &case.cfg;
    let s = Searcher::build(cfg, &case.patterns)?;
    let hay = &case.haystack[..];
    let (s0, e0) = case.span;
    let anchored = case.anchored;
    let full = guard(|| span_results(&s, cfg, hay, case.span, anchored)).map_err(|p| format!("span search panicked: {}", p))??;
    // R3: inside the span
    check_inside("R3", &full, case.span)?;
    let occ = Occ::new(&case.patterns, hay, cfg.casei);
    if s0 > e0 {
        // R4: start = end + 1 yields nothing
        let empty = SpanResults { find: None, earliest: None, iter: vec![], overlapping: full.overlapping.as_ref().map(|_| vec![]), is_match: full.is_match.map(|_| false) };
        if full != empty {
            return Err(format!("R4: start = end + 1 but results are {:?}", full));
        }
        ctx.class("span-start=end+1");
    } else {
        // R1: equal to the sub-slice search shifted by start
        let sub = &hay[s0..e0];
        let subres = guard(|| span_results(&s, cfg, sub, (0, sub.len()), anchored)).map_err(|p| format!("sub-slice search panicked: {}", p))??;
        let shifted = SpanResults {
            find: subres.find.map(|m| shift(m, s0)),
            earliest: subres.earliest.map(|m| shift(m, s0)),
            iter: subres.iter.iter().map(|&m| shift(m, s0)).collect(),
            overlapping: subres.overlapping.as_ref().map(|v| v.iter().map(|&m| shift(m, s0)).collect()),
            is_match: subres.is_match,
        };
        if shifted != full {
            return Err(format!("R1: span search {:?} differs from shifted sub-slice search {:?}", full, shifted));
        }
        // cross-check with the model
        let mf = occ.find(cfg.mk, s0, e0, anchored);
        if full.find != mf {
            return Err(format!("model: span find {:?} differs from model {:?}", full.find, mf));
        }
    }
    // R2: rewriting bytes outside the span changes nothing
    let h2 = rewritten(case);
    let res2 = guard(|| span_results(&s, cfg, &h2, case.span, anchored)).map_err(|p| format!("search on rewritten haystack panicked: {}", p))??;
    if res2 != full {
        return Err(format!("R2: results changed after rewriting bytes outside the span: {:?} vs {:?} (rewritten haystack {:?})", full, res2, crate::case::esc::to_string(&h2)));
    }

    // packed::Searcher::find_in (start <= end there)
    let mut packed_checked = false;
    // the pattern list as given, and the sub-list of patterns of >= 4 bytes
    // (selects the 4-byte Teddy masks); every forced algorithm variant
    let long_only: Vec<Vec<u8>> = case.patterns.iter().filter(|p| p.len() >= 4).cloned().collect();
    let mut lists: Vec<&Vec<Vec<u8>>> = vec![&case.patterns];
    if !long_only.is_empty() && long_only.len() < case.patterns.len() {
        lists.push(&long_only);
    }
    let variant = [
        crate::case::PackedVariant::Default,
        crate::case::PackedVariant::Fat256,
        crate::case::PackedVariant::Slim128,
        crate::case::PackedVariant::Slim256,
        crate::case::PackedVariant::RabinKarp,
    ][(case.haystack.len() + case.patterns.len()) % 5];
    for plist in lists {
      if s0 <= e0 && !plist.is_empty() && plist.len() <= 128 && plist.iter().all(|p| !p.is_empty()) && !cfg.casei {
        for ll in [false, true] {
            // forced variants ignore the pattern-count heuristics; the default
            // variant keeps them on (what the top-level prefilter uses)
            let pc = crate::case::PackedCfg { variant, leftmost_longest: ll, heuristic_limits: variant == crate::case::PackedVariant::Default };
            let built = crate::props::packed::build_packed(&pc, plist)?;
            if let Some(ps) = built {
                packed_checked = true;
                let span = Span { start: s0, end: e0 };
                let a = guard(|| ps.find_in(hay, span)).map_err(|p| format!("packed find_in panicked: {}", p))?.map(to_m);
                let sub = &hay[s0..e0];
                let b = guard(|| ps.find_in(sub, Span { start: 0, end: sub.len() })).map_err(|p| format!("packed find_in(sub) panicked: {}", p))?.map(to_m).map(|m| shift(m, s0));
                let c = guard(|| ps.find_in(&h2, span)).map_err(|p| format!("packed find_in(rewritten) panicked: {}", p))?.map(to_m);
                if let Some(m) = a {
                    if m.start < s0 || m.end > e0 {
                        return Err(format!("packed R3: {:?} outside span {:?}", m, case.span));
                    }
                }
                if a != b {
                    return Err(format!("packed R1 (leftmost_longest={}): find_in span {:?} vs shifted sub-slice {:?}", ll, a, b));
                }
                if a != c {
                    return Err(format!("packed R2 (leftmost_longest={}): find_in {:?} changed to {:?} after rewriting outside bytes", ll, a, c));
                }
                let mk = if ll { Mk::LeftmostLongest } else { Mk::LeftmostFirst };
                let occ2 = Occ::new(plist, hay, false);
                let mf = occ2.find(mk, s0, e0, false);
                if a != mf {
                    return Err(format!("packed model ({:?}, leftmost_longest={}): find_in {:?} vs model {:?}", variant, ll, a, mf));
                }
            }
        }
      }
    }
    // R5: every way of establishing the same span on an Input is equivalent
    if s0 <= e0 {
        use aho_corasick::Input;
        let want = aho_corasick::Span { start: s0, end: e0 };
        let mut routes: Vec<(&str, Input)> = vec![
            ("range(s..e)", Input::new(hay).range(s0..e0)),
            ("set_span", {
                let mut i = Input::new(hay);
                i.set_span(want);
                i
            }),
            ("set_end then set_start", {
                let mut i = Input::new(hay);
                i.set_end(e0);
                i.set_start(s0);
                i
            }),
            ("set_range(s..e) after narrowing", {
                let mut i = Input::new(hay).span(aho_corasick::Span { start: s0, end: s0 });
                i.set_range(s0..e0);
                i
            }),
        ];
        if e0 == hay.len() {
            routes.push(("span(0..s) then range(s..)", Input::new(hay).span(aho_corasick::Span { start: 0, end: s0 }).range(s0..)));
            routes.push(("set_end(s) then set_range(s..)", {
                let mut i = Input::new(hay);
                i.set_end(s0);
                i.set_range(s0..);
                i
            }));
        }
        if s0 == 0 {
            routes.push(("span(e..e) then range(..e)", Input::new(hay).span(aho_corasick::Span { start: e0, end: e0 }).range(..e0)));
        }
        if e0 > s0 {
            routes.push(("range(s..=e-1)", Input::new(hay).range(s0..=e0 - 1)));
        }
        {
            use std::ops::Bound::{Excluded, Included, Unbounded};
            if s0 >= 1 {
                routes.push(("range((Excluded(s-1), Excluded(e)))", Input::new(hay).range((Excluded(s0 - 1), Excluded(e0)))));
                if e0 == hay.len() {
                    routes.push(("range((Excluded(s-1), Unbounded))", Input::new(hay).range((Excluded(s0 - 1), Unbounded))));
                }
                if e0 > s0 {
                    routes.push(("set_range((Excluded(s-1), Included(e-1)))", {
                        let mut i = Input::new(hay);
                        i.set_range((Excluded(s0 - 1), Included(e0 - 1)));
                        i
                    }));
                }
            }
            routes.push(("range((Included(s), Excluded(e)))", Input::new(hay).range((Included(s0), Excluded(e0)))));
            if s0 == 0 {
                routes.push(("range((Unbounded, Excluded(e)))", Input::new(hay).range((Unbounded, Excluded(e0)))));
            }
        }
        for (name, inp) in routes {
            let got = guard(|| inp.get_span()).map_err(|p| format!("R5: building the input via {} panicked: {}", name, p))?;
            if got != want {
                return Err(format!("R5: input built via {} has span {:?}, expected {:?}", name, got, want));
            }
            let r = guard(|| s.try_find(inp.clone().anchored(crate::engine::anch(anchored)))).map_err(|p| format!("R5: find via {} panicked: {}", name, p))?.map_err(|e| format!("R5: find via {}: Err({})", name, e))?;
            if r != full.find {
                return Err(format!("R5: find on the input built via {} gives {:?}, via span() {:?}", name, r, full.find));
            }
        }
        ctx.class("input-routes-checked");
    }
    if packed_checked {
        ctx.class("packed-find_in-checked");
    }

    // classes / non-triviality
    ctx.class(sem::engine_class(cfg.engine));
    ctx.class(sem::mk_class(cfg.mk));
    ctx.class(&format!("gen:{}", case.sub));
    if anchored {
        ctx.class("anchored");
    }
    if cfg.prefilter {
        ctx.class(&format!("prefilter:{}", prefilter_class(cfg, &case.patterns)));
    }
    let strict_inside = s0 > 0 && e0 < hay.len() && s0 <= e0;
    if strict_inside {
        ctx.class("span-strictly-inside");
    }
    // an occurrence straddles a boundary in the original or rewritten haystack
    let straddle = |h: &[u8]| {
        let o = Occ::new(&case.patterns, h, cfg.casei);
        o.all_in(0, h.len()).iter().any(|m| (m.start < s0 && m.end > s0) || (m.start < e0 && m.end > e0))
    };
    let st = s0 <= e0 && (straddle(hay) || straddle(&h2));
    if st {
        ctx.class("occurrence-straddles-boundary");
    }
    if strict_inside && st {
        ctx.nontrivial();
    }
    Ok(())
}

/// Directed span boundaries: cut an occurrence of a pattern (the last one of
/// the list half of the time) with the right or the left end of the span, so
/// that the *original* haystack has an occurrence that starts inside and ends
/// outside (or vice versa). Plants the pattern when it does not occur.
pub fn directed_cut(case: &mut Case, mode: u8, pa: u16, pb: u16) {
    let n = case.haystack.len();
    let cut = (mode >> 1) & 3;
    if (cut == 1 || cut == 2) && !case.patterns.is_empty() && case.span.0 <= case.span.1 {
        let np = case.patterns.len();
        let pi = if mode & 8 != 0 { np - 1 } else { (pa as usize * np) >> 16 };
        let p = case.patterns[pi].clone();
        if p.len() >= 2 && n >= p.len() {
            let pos = match case.haystack.windows(p.len()).position(|w| w == &p[..]) {
                Some(pos) => pos,
                None => {
                    let at = (pb as usize * (n - p.len() + 1)) >> 16;
                    case.haystack[at..at + p.len()].copy_from_slice(&p);
                    at
                }
            };
            let sel = (mode >> 4) as usize; // 0..16
            let k = if sel < 6 { p.len() - 1 - (sel % 3).min(p.len() - 2) } else { 1 + ((sel - 6) * (p.len() - 1)) / 10 };
            let k = k.clamp(1, p.len() - 1);
            let (s, e) = case.span;
            case.span = if cut == 1 { (s.min(pos), pos + k) } else { (pos + k, e.max(pos + p.len())) };
        }
    }
}

fn c10_strategy(_tier: Tier) -> BoxedStrategy<Case> {
    let base = |size_class: u8| {
        gen::search_case(SearchOpts {
            prop: "C10",
            cfg: CfgOpts { anchored: 1, casei: 1, ..CfgOpts::default() },
            pats: PatOpts { w_empty: 3, max_class: 1, long: true, w_shapes: 12, w_adversarial: 1, w_fanout: 0 },
            hay: HayOpts { size_class },
            full_span_only: false,
            alphabets: gen::default_alphabets(),
            no_empty: false,
        })
    };
    let cases = Union::new_weighted(vec![(6, base(1)), (3, base(2)), (1, base(3))]);
    // second haystack recipe for the outside bytes + boundary completion params
    (cases, gen::hay_recipe(HayOpts { size_class: 1 }), any::<u16>(), any::<u16>(), any::<u8>())
        .prop_map(|(mut case, pieces, pa, pb, mode)| {
            let alpha = gen::alphabet(gen::ALPHA_ABCX);
            let mut outside = gen::realize_haystack(&pieces, &case.patterns, &alpha, 1);
            if outside.is_empty() {
                outside.push(b'a');
            }
            let n = case.haystack.len();
            directed_cut(&mut case, mode, pa, pb);
            let mut o: Vec<u8> = (0..n).map(|i| outside[i % outside.len()]).collect();
            let (s, e) = case.span;
            if s <= e && mode & 1 == 0 {
                // adversarial completion across the left boundary: the inside
                // starts with a proper suffix of a pattern -> write the
                // missing prefix just before the span start
                let mut cands = Vec::new();
                for p in &case.patterns {
                    for k in 1..p.len() {
                        if s >= k && case.haystack[s..e].starts_with(&p[k..]) {
                            cands.push((k, p[..k].to_vec()));
                        }
                    }
                }
                if !cands.is_empty() {
                    let (k, pre) = &cands[(pa as usize * cands.len()) >> 16];
                    o[s - k..s].copy_from_slice(pre);
                }
                // and across the right boundary
                let mut cands = Vec::new();
                for p in &case.patterns {
                    for k in 1..p.len() {
                        if e + (p.len() - k) <= n && case.haystack[s..e].ends_with(&p[..k]) {
                            cands.push(p[k..].to_vec());
                        }
                    }
                }
                if !cands.is_empty() {
                    let suf = &cands[(pb as usize * cands.len()) >> 16];
                    o[e..e + suf.len()].copy_from_slice(suf);
                }
            }
            case.outside = o;
            case
        })
        .boxed()
}

pub const C10: PropDef = PropDef {
    id: "C10",
    rule: "metamorphic relations on generated (config, patterns, haystack, span, anchoring), all 7 engines, every prefilter shape: \
R1 search(h, s..e) == shift(search(h[s..e]), s) for find / earliest / iter / overlapping steps / is_match; R2 rewriting the bytes outside s..e (with generated content, incl. the missing prefix/suffix of a pattern that the inside starts/ends with, so that a match would complete across the boundary) leaves every result unchanged; \
R3 every reported match lies inside the span; R4 start = end+1 yields nothing; R5 every way of establishing the same span on an Input (span, range, set_span, set_start/set_end, open-ended set_range after narrowing) gives the same span and result; R1-R3 also for packed::Searcher::find_in in both match kinds, each forced algorithm variant, on the pattern list and on its sub-list of patterns >= 4 bytes; span find is cross-checked with the model. \
Non-trivial = 0 < start, end < len, and an occurrence straddles a span boundary in the original or rewritten haystack. Distinct = distinct case fingerprint.",
    assumptions: &["searches are deterministic functions of (searcher, haystack bytes, span), so earliest-mode results are compared by equality too"],
    cases_quick: 220_000,
    cases_thorough: 3_000_000,
    strategy: c10_strategy,
    check: c10_check,
    extra: None,
    floors: &[
        ("occurrence-straddles-boundary", 20_000),
        ("span-strictly-inside", 30_000),
        ("packed-find_in-checked", 20_000),
        ("prefilter:Packed", 300),
        ("prefilter:RareBytesTwo", 300),
        ("prefilter:StartBytesTwo", 300),
        ("prefilter:Memmem", 300),
    ],
};

#[allow(dead_code)]
fn _e(_: Engine) {}
