//! The shared semantic checker: runs the search APIs of one configured
//! searcher on one (patterns, haystack, span, anchoring) input and compares
//! every result with the reference model. C01/C02/C03/C09/C11/C14 (and
//! parts of C05/C10) are thin wrappers that choose generators, the subset of
//! sub-checks and the non-triviality rule.

use crate::case::{Case, Engine, Mk};
use crate::engine::{guard, input, Searcher};
use crate::model::{Occ, M};
use crate::runner::Ctx;

#[derive(Clone, Copy, Debug, Default)]
pub struct Flags {
    pub find: bool,
    pub iter: bool,
    pub overlapping: bool,
    pub is_match: bool,
    pub earliest: bool,
}

impl Flags {
    pub const ALL: Flags = Flags {
        find: true,
        iter: true,
        overlapping: true,
        is_match: true,
        earliest: true,
    };
}

/// Facts about the input used for non-triviality rules and classes.
#[derive(Clone, Debug, Default)]
pub struct Facts {
    pub occurrences: usize,
    /// two occurrences share a start (different pattern) or overlap with
    /// different starts
    pub competing: bool,
    /// two occurrences share an end offset
    pub shared_end: bool,
    /// an occurrence ends earlier but starts later than another
    pub later_start_earlier_end: bool,
    pub has_empty: bool,
    pub empty_with_long: bool,
    pub duplicates: bool,
    /// an occurrence starts after the search start
    pub occ_after_start: bool,
    /// some pattern is a proper suffix of another pattern
    pub suffix_relation: bool,
    pub span_restricted: bool,
    pub find_result: Option<M>,
    pub iter_len: usize,
    pub earliest_differs: bool,
    pub folded_only_match: bool,
}

pub fn post_conditions(
    what: &str,
    m: M,
    npats: usize,
    hay_len: usize,
    span: (usize, usize),
) -> Result<(), String> {
    if !(m.start <= m.end && m.end <= hay_len) {
        return Err(format!("{}: match {:?} violates start <= end <= len {}", what, m, hay_len));
    }
    if m.pat >= npats {
        return Err(format!("{}: match {:?} has pattern id >= {}", what, m, npats));
    }
    if m.start < span.0 || m.end > span.1 {
        return Err(format!("{}: match {:?} lies outside the span {:?}", what, m, span));
    }
    Ok(())
}

pub fn facts(occ: &Occ, case: &Case) -> Facts {
    let (s0, e0) = case.span;
    let all: Vec<M> = occ
        .all_in(s0, e0)
        .into_iter()
        .filter(|m| !case.anchored || m.start == s0)
        .collect();
    let mut f = Facts { occurrences: all.len(), ..Facts::default() };
    let cap = all.len().min(64);
    for i in 0..cap {
        for j in (i + 1)..cap {
            let (a, b) = (all[i], all[j]);
            if a.start == b.start && a.pat != b.pat {
                f.competing = true;
            }
            if a.start != b.start && a.start < b.end && b.start < a.end {
                f.competing = true;
            }
            if a.end == b.end {
                f.shared_end = true;
            }
            if (a.end < b.end && a.start > b.start)
                || (b.end < a.end && b.start > a.start)
            {
                f.later_start_earlier_end = true;
            }
        }
    }
    f.has_empty = case.patterns.iter().any(|p| p.is_empty());
    f.empty_with_long = f.has_empty && case.patterns.iter().any(|p| p.len() >= 2);
    for (i, p) in case.patterns.iter().enumerate() {
        for (j, q) in case.patterns.iter().enumerate() {
            if i < j && p == q {
                f.duplicates = true;
            }
            if i != j && p.len() < q.len() && !p.is_empty() && q.ends_with(p) {
                f.suffix_relation = true;
            }
        }
        if i > 40 {
            break;
        }
    }
    f.occ_after_start = occ
        .all_in(s0, e0)
        .iter()
        .any(|m| m.start > s0);
    f.span_restricted = s0 > 0 || e0 < case.haystack.len();
    f
}

fn supported_err(what: &str, e: impl std::fmt::Display) -> String {
    format!("{}: supported request returned Err({})", what, e)
}

/// Run the selected sub-checks. `searcher` is built by the caller so that
/// several inputs can share one build.
pub fn check_semantics(
    s: &Searcher,
    case: &Case,
    flags: Flags,
    ctx: &mut Ctx,
) -> Result<Facts, String> {
    let cfg = &case.cfg;
    let hay = &case.haystack[..];
    let (s0, e0) = case.span;
    let anchored = case.anchored;
    let npats = case.patterns.len();
    let occ = Occ::new(&case.patterns, hay, cfg.casei);
    let mut f = facts(&occ, case);

    // --- single search
    let expect_find = occ.find(cfg.mk, s0, e0, anchored);
    f.find_result = expect_find;
    if flags.find {
        let got = guard(|| s.try_find(input(hay, case.span, anchored, false)))
            .map_err(|p| format!("find: panicked: {}", p))?
            .map_err(|e| supported_err("find", e))?;
        if let Some(m) = got {
            post_conditions("find", m, npats, hay.len(), case.span)?;
        }
        if got != expect_find {
            return Err(format!("find: expected {:?}, got {:?}", expect_find, got));
        }
    }

    // --- non-overlapping iterator
    if flags.iter {
        let expect = occ.iter(cfg.mk, s0, e0, anchored);
        f.iter_len = expect.len();
        let got = guard(|| s.try_find_iter(input(hay, case.span, anchored, false)))
            .map_err(|p| format!("find_iter: panicked: {}", p))?
            .map_err(|e| supported_err("find_iter", e))?;
        for m in &got {
            post_conditions("find_iter", *m, npats, hay.len(), case.span)?;
        }
        if got != expect {
            let k = got.iter().zip(expect.iter()).take_while(|(a, b)| a == b).count();
            return Err(format!(
                "find_iter: sequences differ at index {}: expected {:?}, got {:?} (lens {} vs {})",
                k,
                expect.get(k),
                got.get(k),
                expect.len(),
                got.len()
            ));
        }
    }

    // --- overlapping (standard semantics only)
    if flags.overlapping && cfg.mk == Mk::Standard {
        let expect = occ.overlapping(s0, e0, anchored);
        let extra = 3;
        let got = guard(|| {
            s.overlapping_steps(
                input(hay, case.span, anchored, false),
                extra,
                expect.len() + 8,
            )
        })
        .map_err(|p| format!("overlapping steps: panicked: {}", p))?
        .map_err(|e| supported_err("overlapping steps", e))?;
        for m in &got {
            post_conditions("overlapping steps", *m, npats, hay.len(), case.span)?;
        }
        if got != expect {
            let k = got.iter().zip(expect.iter()).take_while(|(a, b)| a == b).count();
            return Err(format!(
                "overlapping steps: sequences differ at index {}: expected {:?}, got {:?} (lens {} vs {})",
                k,
                expect.get(k),
                got.get(k),
                expect.len(),
                got.len()
            ));
        }
        if !anchored {
            let got = guard(|| {
                s.try_find_overlapping_iter(input(hay, case.span, false, false))
            })
            .map_err(|p| format!("overlapping iter: panicked: {}", p))?
            .map_err(|e| supported_err("overlapping iter", e))?;
            if got != expect {
                let k = got.iter().zip(expect.iter()).take_while(|(a, b)| a == b).count();
                return Err(format!(
                    "overlapping iter: sequences differ at index {}: expected {:?}, got {:?} (lens {} vs {})",
                    k,
                    expect.get(k),
                    got.get(k),
                    expect.len(),
                    got.len()
                ));
            }
        }
        ctx.count("overlapping_matches", expect.len() as u64);
    }

    // --- is_match (top-level API only)
    if flags.is_match {
        if let Searcher::Top(a) = s {
            let got = guard(|| a.is_match(input(hay, case.span, anchored, false)))
                .map_err(|p| format!("is_match: panicked: {}", p))?;
            if got != expect_find.is_some() {
                return Err(format!(
                    "is_match: expected {}, got {} (find = {:?})",
                    expect_find.is_some(),
                    got,
                    expect_find
                ));
            }
        }
    }

    // --- earliest mode: a validity predicate, not a value
    if flags.earliest {
        let got = guard(|| s.try_find(input(hay, case.span, anchored, true)))
            .map_err(|p| format!("earliest: panicked: {}", p))?
            .map_err(|e| supported_err("earliest", e))?;
        match (got, expect_find) {
            (None, None) => {}
            (Some(m), Some(n)) => {
                post_conditions("earliest", m, npats, hay.len(), case.span)?;
                if !occ.is_occurrence(m, s0, e0) {
                    return Err(format!("earliest: {:?} is not an occurrence", m));
                }
                if anchored && m.start != s0 {
                    return Err(format!("earliest: {:?} does not start at the anchored start {}", m, s0));
                }
                if m.end > n.end {
                    return Err(format!("earliest: {:?} ends after the normal match {:?}", m, n));
                }
                if cfg.mk == Mk::Standard && m != n {
                    return Err(format!("earliest (standard): {:?} differs from normal {:?}", m, n));
                }
                if m != n {
                    f.earliest_differs = true;
                }
            }
            (g, e) => {
                return Err(format!("earliest: got {:?} but normal search gives {:?}", g, e));
            }
        }
    }

    // folding fact: a match exists with folding that would not exist without
    if cfg.casei {
        if let Some(m) = expect_find {
            if hay[m.start..m.end] != case.patterns[m.pat][..] {
                f.folded_only_match = true;
            }
        }
    }
    Ok(f)
}

pub fn engine_class(e: Engine) -> &'static str {
    match e {
        Engine::TopAuto => "engine:top-auto",
        Engine::TopNc => "engine:top-noncontiguous",
        Engine::TopC => "engine:top-contiguous",
        Engine::TopDfa => "engine:top-dfa",
        Engine::LowNc => "engine:low-noncontiguous",
        Engine::LowC => "engine:low-contiguous",
        Engine::LowDfa => "engine:low-dfa",
    }
}

pub fn mk_class(m: Mk) -> &'static str {
    match m {
        Mk::Standard => "kind:standard",
        Mk::LeftmostFirst => "kind:leftmost-first",
        Mk::LeftmostLongest => "kind:leftmost-longest",
    }
}

/// Common classes recorded for every semantic case.
pub fn common_classes(case: &Case, f: &Facts, ctx: &mut Ctx) {
    ctx.class(engine_class(case.cfg.engine));
    ctx.class(mk_class(case.cfg.mk));
    ctx.class(&format!("gen:{}", case.sub));
    if case.anchored {
        ctx.class("anchored");
    }
    if case.cfg.casei {
        ctx.class("casei");
    }
    if f.has_empty {
        ctx.class("empty-pattern");
    }
    if f.empty_with_long {
        ctx.class("empty-pattern+long-companion");
    }
    if f.duplicates {
        ctx.class("duplicate-patterns");
    }
    if f.competing {
        ctx.class("competing-occurrences");
    }
    if f.span_restricted {
        ctx.class("span-restricted");
    }
    if case.span.0 > case.span.1 {
        ctx.class("span-start=end+1");
    }
    if f.occurrences == 0 {
        ctx.class("no-occurrence");
    }
    match case.patterns.len() {
        0 => ctx.class("npats:0"),
        1 => ctx.class("npats:1"),
        2..=6 => ctx.class("npats:2-6"),
        7..=40 => ctx.class("npats:7-40"),
        _ => ctx.class("npats:41+"),
    }
    match case.haystack.len() {
        0 => ctx.class("hay:0"),
        1..=16 => ctx.class("hay:1-16"),
        17..=80 => ctx.class("hay:17-80"),
        81..=400 => ctx.class("hay:81-400"),
        _ => ctx.class("hay:401+"),
    }
}
