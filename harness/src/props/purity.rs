//! C17: searches are pure (no hidden state) and safe to share across threads.

use std::sync::atomic::{AtomicUsize, Ordering};

use aho_corasick::packed;
use proptest::prelude::*;
use proptest::strategy::BoxedStrategy;

use crate::case::{Case, Engine, Mk, Op, PackedCfg, PackedVariant};
use crate::engine::{guard, input, to_m, Searcher};
use crate::gen::{self, CfgOpts, HayOpts, PatOpts, SearchOpts};
use crate::model::Occ;
use crate::runner::{Ctx, PropDef, Tier};
use crate::sem;

pub const APIS: usize = 10;

/// Handles 0..2: the searcher, its clone, the clone's clone. Handles 3..4: a
/// second, different searcher (longer patterns derived from the first list)
/// and its clone, so that state leaking from one searcher into another
/// through anything process-wide is observable.
struct Handles {
    s: [Searcher; 5],
    p: [Option<packed::Searcher>; 5],
    pats: [Vec<Vec<u8>>; 2],
}

const NH: u8 = 5;

fn second_patterns(pats: &[Vec<u8>]) -> Vec<Vec<u8>> {
    let mut out: Vec<Vec<u8>> = pats
        .iter()
        .map(|p| {
            let mut q = p.clone();
            q.extend_from_slice(p);
            q.extend_from_slice(p);
            q
        })
        .collect();
    if let Some(first) = pats.first() {
        out.push(first.clone());
    }
    out
}

fn which(handle: u8) -> usize {
    if handle % NH >= 3 {
        1
    } else {
        0
    }
}

fn clone_searcher(s: &Searcher) -> Searcher {
    match s {
        Searcher::Top(a) => Searcher::Top(a.clone()),
        Searcher::Nc(a) => Searcher::Nc(a.clone()),
        Searcher::C(a) => Searcher::C(a.clone()),
        Searcher::D(a) => Searcher::D(a.clone()),
    }
}

fn eff_anchored(case: &Case, op: &Op) -> bool {
    if case.cfg.supports_anchored(op.anchored) {
        op.anchored
    } else {
        !op.anchored
    }
}

fn eff_span(op: &Op) -> (usize, usize) {
    let n = op.haystack.len();
    let e = op.span.1.min(n);
    let s = op.span.0.min(e);
    (s, e)
}

/// Execute one operation and return a normalised result string.
fn exec(case: &Case, h: &Handles, op: &Op) -> Result<String, String> {
    let s = &h.s[(op.handle % NH) as usize];
    let pats = &h.pats[which(op.handle)];
    let hay = &op.haystack[..];
    let span = eff_span(op);
    let anchored = eff_anchored(case, op);
    let std_kind = case.cfg.mk == Mk::Standard;
    let unanch = case.cfg.supports_anchored(false);
    let nonempty = !pats.is_empty() && pats.iter().all(|p| !p.is_empty());
    let e = |x: aho_corasick::MatchError| format!("supported request returned Err({})", x);
    let r = guard(|| -> Result<String, String> {
        Ok(match op.api as usize % APIS {
            1 => format!("earliest {:?}", s.try_find(input(hay, span, anchored, true)).map_err(e)?),
            2 => format!("iter {:?}", s.try_find_iter(input(hay, span, anchored, false)).map_err(e)?),
            3 if std_kind => format!("overlapping {:?}", s.overlapping_steps(input(hay, span, anchored, false), 1, 100_000).map_err(e)?),
            4 => match s {
                Searcher::Top(a) => format!("is_match {:?}", a.is_match(input(hay, span, anchored, false))),
                _ => format!("is_match {:?}", s.try_find(input(hay, span, anchored, false)).map_err(e)?.is_some()),
            },
            5 if unanch => {
                let repl: Vec<Vec<u8>> = (0..pats.len()).map(|i| vec![b'#'; i % 3]).collect();
                format!("replace {:?}", s.replace_all_bytes(hay, &repl).map_err(e)?)
            }
            6 if std_kind && nonempty && unanch => {
                // small reads (1..4 bytes) at the default buffer capacity
                let sizes = [1 + (op.span.0 % 4)];
                let rdr = crate::props::stream::SchedReader::new(hay, &sizes, &[], None);
                let items = s.stream_find(rdr).map_err(e)?;
                let v: Vec<String> = items.into_iter().map(|r| format!("{:?}", r.map_err(|e| e.kind()))).collect();
                format!("stream {:?}", v)
            }
            // a replace call made from inside the closure of another replace
            // call on the same thread (re-entrancy)
            8 if unanch => {
                let repl: Vec<Vec<u8>> = (0..pats.len()).map(|i| vec![b'#'; i % 3]).collect();
                let inner_s = &h.s[((op.handle % NH) as usize + 1) % 3];
                let inner_pats = &h.pats[0];
                let inner_repl: Vec<Vec<u8>> = (0..inner_pats.len()).map(|i| vec![b'+'; 1 + i % 2]).collect();
                let mut dst = Vec::new();
                let mut inner_results: Vec<Vec<u8>> = Vec::new();
                s.replace_all_with_bytes(hay, &mut dst, |m, bytes, dst| {
                    // nested call on another handle while the outer one is in progress
                    if let Ok(v) = inner_s.replace_all_bytes(bytes, &inner_repl) {
                        inner_results.push(v);
                    }
                    dst.extend_from_slice(&repl[m.pattern().as_usize()]);
                    true
                })
                .map_err(e)?;
                format!("nested-replace {:?} inner {:?}", dst, inner_results)
            }
            // replace_with whose closure stops at the second match
            9 if unanch => {
                let mut dst = Vec::new();
                let mut calls = 0usize;
                s.replace_all_with_bytes(hay, &mut dst, |m, _, dst| {
                    dst.push(b'<');
                    dst.extend_from_slice(m.pattern().as_usize().to_string().as_bytes());
                    dst.push(b'>');
                    calls += 1;
                    calls < 2
                })
                .map_err(e)?;
                format!("replace-stop {:?}", dst)
            }
            7 => match &h.p[(op.handle % NH) as usize] {
                Some(ps) => format!("packed {:?}", ps.find_iter(hay).take(hay.len() + 3).map(to_m).collect::<Vec<_>>()),
                None => format!("find {:?}", s.try_find(input(hay, span, anchored, false)).map_err(e)?),
            },
            _ => format!("find {:?}", s.try_find(input(hay, span, anchored, false)).map_err(e)?),
        })
    });
    match r {
        Ok(r) => r,
        Err(p) => Err(format!("panicked: {}", p)),
    }
}

/// What the model says for the value-defined APIs.
fn model_result(case: &Case, h: &Handles, op: &Op) -> Option<String> {
    let pats = &h.pats[which(op.handle)];
    let occ = Occ::new(pats, &op.haystack, case.cfg.casei);
    let (s0, e0) = eff_span(op);
    let anchored = eff_anchored(case, op);
    let std_kind = case.cfg.mk == Mk::Standard;
    let nonempty = !pats.is_empty() && pats.iter().all(|p| !p.is_empty());
    let unanch = case.cfg.supports_anchored(false);
    match op.api as usize % APIS {
        8 if unanch => {
            let repl: Vec<Vec<u8>> = (0..pats.len()).map(|i| vec![b'#'; i % 3]).collect();
            let ms = occ.iter(case.cfg.mk, 0, op.haystack.len(), false);
            let outer = crate::model::replace_all_bytes(&op.haystack, &ms, &repl, None);
            let inner_pats = &h.pats[0];
            let inner_repl: Vec<Vec<u8>> = (0..inner_pats.len()).map(|i| vec![b'+'; 1 + i % 2]).collect();
            let inner: Vec<Vec<u8>> = ms
                .iter()
                .map(|m| {
                    let b = &op.haystack[m.start..m.end];
                    let o = Occ::new(inner_pats, b, case.cfg.casei);
                    crate::model::replace_all_bytes(b, &o.iter(case.cfg.mk, 0, b.len(), false), &inner_repl, None)
                })
                .collect();
            Some(format!("nested-replace {:?} inner {:?}", outer, inner))
        }
        9 if unanch => {
            let ms = occ.iter(case.cfg.mk, 0, op.haystack.len(), false);
            let mut out = Vec::new();
            let mut last = 0;
            for (k, m) in ms.iter().enumerate() {
                out.extend_from_slice(&op.haystack[last..m.start]);
                last = m.end;
                out.push(b'<');
                out.extend_from_slice(m.pat.to_string().as_bytes());
                out.push(b'>');
                if k == 1 {
                    break;
                }
            }
            out.extend_from_slice(&op.haystack[last..]);
            Some(format!("replace-stop {:?}", out))
        }
        1 | 5 => None,
        6 if std_kind && nonempty && case.cfg.supports_anchored(false) => {
            let v: Vec<String> = occ
                .iter(Mk::Standard, 0, op.haystack.len(), false)
                .into_iter()
                .map(|m| format!("{:?}", Ok::<_, std::io::ErrorKind>(m)))
                .collect();
            Some(format!("stream {:?}", v))
        }
        6 => Some(format!("find {:?}", occ.find(case.cfg.mk, s0, e0, anchored))),
        7 => None,
        2 => Some(format!("iter {:?}", occ.iter(case.cfg.mk, s0, e0, anchored))),
        3 if std_kind => Some(format!("overlapping {:?}", occ.overlapping(s0, e0, anchored))),
        4 => Some(format!("is_match {:?}", occ.find(case.cfg.mk, s0, e0, anchored).is_some())),
        _ => Some(format!("find {:?}", occ.find(case.cfg.mk, s0, e0, anchored))),
    }
}

fn c17_check(case: &Case, ctx: &mut Ctx) -> Result<(), String> {
    if case.ops.is_empty() {
        return Err("unsound C17 case (no operations)".into());
    }
    let s0 = Searcher::build(&case.cfg, &case.patterns)?;
    let s1 = clone_searcher(&s0);
    let s2 = clone_searcher(&s1);
    let pc = PackedCfg { variant: PackedVariant::Default, leftmost_longest: false, heuristic_limits: true };
    let p0 = if !case.patterns.is_empty() && case.patterns.len() <= 64 && case.patterns.iter().all(|p| !p.is_empty()) {
        crate::props::packed::build_packed(&pc, &case.patterns)?
    } else {
        None
    };
    let p1 = p0.clone();
    let p2 = p1.clone();
    let pats2 = second_patterns(&case.patterns);
    let s3 = Searcher::build(&case.cfg, &pats2)?;
    let s4 = clone_searcher(&s3);
    let h = Handles { s: [s0, s1, s2, s3, s4], p: [p0, p1, p2, None, None], pats: [case.patterns.clone(), pats2] };
    // --- build independence: two pattern lists with the same number of
    //     patterns and the same concatenation (one separator-like byte moved
    //     across a pattern boundary), built back to back on this thread, must
    //     each behave like a fresh build (model comparison)
    if case.patterns.len() >= 2 {
        let i = case.threads % (case.patterns.len() - 1);
        for t in [0xFFu8, 0x00, b',', b'\n'] {
            let mut a = case.patterns.clone();
            let mut b = case.patterns.clone();
            a[i].push(t);
            b[i + 1].insert(0, t);
            let mut probe = a[i].clone();
            probe.extend_from_slice(&a[i + 1]);
            probe.extend_from_slice(&case.patterns[0]);
            // top-level engines: all three builds come from ONE builder object
            // (a builder must not carry anything over from one build to the next)
            let shared_builder = if case.cfg.engine.is_top() { Some(crate::engine::top_builder(&case.cfg)) } else { None };
            for (name, list) in [("first", &a), ("second", &b), ("first again", &a)] {
                let s = match &shared_builder {
                    Some(bld) => {
                        let r = guard(|| {
                            let _s = crate::engine::SuspendBudget::new();
                            bld.build(list.iter())
                        })
                        .map_err(|p| format!("back-to-back builds: build panicked: {}", p))?;
                        Searcher::Top(r.map_err(|e| format!("back-to-back builds: build returned Err: {}", e))?)
                    }
                    None => Searcher::build(&case.cfg, list)?,
                };
                if s.patterns_len() != list.len() || (s.max_pattern_len() != list.iter().map(|p| p.len()).max().unwrap_or(0)) {
                    return Err(format!("back-to-back builds ({} list, separator {:#04x}): metadata does not match the list that was built", name, t));
                }
                let anchored = !case.cfg.supports_anchored(false);
                let occ = Occ::new(list, &probe, case.cfg.casei);
                let want = occ.iter(case.cfg.mk, 0, probe.len(), anchored);
                let got = guard(|| s.try_find_iter(input(&probe, (0, probe.len()), anchored, false))).map_err(|p| format!("back-to-back builds: panic {}", p))?.map_err(|e| e.to_string())?;
                if got != want {
                    return Err(format!(
                        "back-to-back builds ({} list, separator {:#04x} moved across the boundary after pattern {}): expected {:?}, got {:?} - the searcher does not correspond to the list it was built from",
                        name, t, i, want, got
                    ));
                }
            }
        }
        ctx.class("back-to-back-builds-checked");
    }

    // --- sequential history, compared with the model
    let mut results: Vec<String> = Vec::with_capacity(case.ops.len());
    for (i, op) in case.ops.iter().enumerate() {
        let r = exec(case, &h, op).map_err(|e| format!("op {} ({:?}): {}", i, op, e))?;
        if let Some(m) = model_result(case, &h, op) {
            if m != r {
                return Err(format!("op {} in the sequential history: expected {}, got {}", i, m, r));
            }
        }
        results.push(r);
    }
    // --- same ops in reverse order, and every op on every handle: results
    //     must not depend on history or on which clone is used
    for (i, op) in case.ops.iter().enumerate().rev() {
        let group: &[u8] = if which(op.handle) == 0 { &[0, 1, 2] } else { &[3, 4] };
        for &handle in group {
            let op2 = Op { handle, ..op.clone() };
            let r = exec(case, &h, &op2).map_err(|e| format!("op {} (reverse pass, handle {}): {}", i, handle, e))?;
            if r != results[i] {
                return Err(format!("op {} gave a different result when re-run later on handle {}: first {}, then {}", i, handle, results[i], r));
            }
        }
    }
    // --- concurrent: threads run interleaved slices of the history on the
    //     shared searchers; every result must equal the sequential one
    let threads = case.threads.clamp(2, 8);
    let barrier = std::sync::Barrier::new(threads);
    let in_flight = AtomicUsize::new(0);
    let max_in_flight = AtomicUsize::new(0);
    let rounds = 3usize;
    let failure: std::sync::Mutex<Option<String>> = std::sync::Mutex::new(None);
    std::thread::scope(|sc| {
        for t in 0..threads {
            let (h, results, in_flight, max_in_flight, failure, barrier) = (&h, &results, &in_flight, &max_in_flight, &failure, &barrier);
            sc.spawn(move || {
                barrier.wait();
                for round in 0..rounds {
                    for k in 0..case.ops.len() {
                        // each thread walks the history from a different
                        // offset so that different ops overlap in time
                        let i = (k + t * 3 + round) % case.ops.len();
                        let base = case.ops[i].handle % NH;
                        let handle = if base >= 3 { 3 + ((base as usize - 3 + t) % 2) as u8 } else { ((base as usize + t) % 3) as u8 };
                        let op = Op { handle, ..case.ops[i].clone() };
                        let n = in_flight.fetch_add(1, Ordering::SeqCst) + 1;
                        max_in_flight.fetch_max(n, Ordering::SeqCst);
                        let r = exec(case, h, &op);
                        in_flight.fetch_sub(1, Ordering::SeqCst);
                        let bad = match r {
                            Ok(r) if r == results[i] => None,
                            Ok(r) => Some(format!("op {} on thread {} gave {} but sequentially {}", i, t, r, results[i])),
                            Err(e) => Some(format!("op {} on thread {}: {}", i, t, e)),
                        };
                        if let Some(b) = bad {
                            let mut f = failure.lock().unwrap();
                            if f.is_none() {
                                *f = Some(b);
                            }
                            return;
                        }
                    }
                }
            });
        }
    });
    if let Some(f) = failure.into_inner().unwrap() {
        return Err(format!("concurrent use: {}", f));
    }
    let overlapped = max_in_flight.load(Ordering::SeqCst);
    ctx.class(sem::engine_class(case.cfg.engine));
    ctx.class(sem::mk_class(case.cfg.mk));
    ctx.class(&format!("threads:{}", threads));
    ctx.count("ops_executed", (case.ops.len() * (1 + 3 + threads * rounds)) as u64);
    if overlapped >= 2 {
        ctx.class("searches-overlapped-in-time");
    }
    ctx.count("max_in_flight_sum", overlapped as u64);
    let handles_used: std::collections::BTreeSet<u8> = case.ops.iter().map(|o| o.handle % NH).collect();
    if handles_used.iter().any(|&h| h >= 3) && handles_used.iter().any(|&h| h < 3) {
        ctx.class("two-different-searchers-in-history");
    }
    if overlapped >= 2 && case.ops.len() >= 2 && handles_used.len() >= 2 {
        ctx.nontrivial();
    }
    Ok(())
}

fn c17_strategy(_tier: Tier) -> BoxedStrategy<Case> {
    let base = gen::search_case(SearchOpts {
        prop: "C17",
        // the contiguous NFA (also what the automatic choice gives for > 100
        // patterns) is drawn more often: it is the representation with the
        // most per-search arithmetic
        cfg: CfgOpts {
            casei: 1,
            anchored: 1,
            engines: vec![Engine::TopC, Engine::LowC, Engine::TopC, Engine::TopAuto, Engine::TopNc, Engine::LowNc, Engine::TopDfa, Engine::LowDfa, Engine::TopAuto],
            ..CfgOpts::default()
        },
        pats: PatOpts { w_empty: 3, max_class: 1, long: true, w_shapes: 10, w_adversarial: 8, w_fanout: 0 },
        hay: HayOpts { size_class: 2 },
        full_span_only: true,
        alphabets: gen::default_alphabets(),
        no_empty: false,
    });
    let op = (0u8..NH, 0u8..APIS as u8, gen::hay_recipe(HayOpts { size_class: 1 }), gen::span_recipe(false), any::<bool>(), any::<bool>());
    (base, proptest::collection::vec(op, 2..=10), 2usize..=8, gen::alpha_strategy(&gen::default_alphabets()))
        .prop_map(|(mut case, ops, threads, ai)| {
            let alpha = gen::alphabet(ai);
            let main_hay = case.haystack.clone();
            case.ops = ops
                .into_iter()
                .map(|(handle, api, pieces, sr, anchored, reuse)| {
                    let mut haystack = if reuse { main_hay.clone() } else { gen::realize_haystack(&pieces, &case.patterns, &alpha, 1) };
                    // every third op: a haystack that rides long failure
                    // chains (near-miss repeats of the longest pattern)
                    if (handle as usize + api as usize) % 3 == 0 && !case.patterns.is_empty() {
                        let longest = case.patterns.iter().max_by_key(|p| p.len()).unwrap();
                        if longest.len() >= 2 {
                            let body = &longest[..longest.len() - 1];
                            let mut h = Vec::new();
                            while h.len() < 120 {
                                h.extend_from_slice(body);
                                h.push(haystack.first().copied().unwrap_or(b'x'));
                            }
                            haystack = h;
                        }
                    }
                    let span = gen::realize_span(sr, haystack.len());
                    let span = if span.0 > span.1 { (0, haystack.len()) } else { span };
                    Op { handle, api, haystack, span, anchored }
                })
                .collect();
            case.threads = threads;
            case.haystack.clear();
            case.span = (0, 0);
            case
        })
        .boxed()
}

fn source_scan() -> serde_json::Value {
    // Context only: never produces a violation.
    let mut hits = Vec::new();
    fn walk(dir: &std::path::Path, hits: &mut Vec<String>) {
        if let Ok(rd) = std::fs::read_dir(dir) {
            for e in rd.flatten() {
                let p = e.path();
                if p.is_dir() {
                    walk(&p, hits);
                } else if p.extension().map_or(false, |x| x == "rs") && !p.ends_with("verif.rs") && !p.to_string_lossy().contains("tests") {
                    if let Ok(s) = std::fs::read_to_string(&p) {
                        for (n, line) in s.lines().enumerate() {
                            let t = line.trim_start();
                            if t.starts_with("//") {
                                continue;
                            }
                            for kw in ["RefCell", "Cell<", "Atomic", "Mutex", "RwLock", "static mut", "thread_local", "UnsafeCell", "OnceCell", "lazy_static"] {
                                if line.contains(kw) {
                                    hits.push(format!("{}:{}: {}", p.display(), n + 1, t.chars().take(100).collect::<String>()));
                                }
                            }
                        }
                    }
                }
            }
        }
    }
    walk(std::path::Path::new("/repo/src"), &mut hits);
    hits.truncate(40);
    serde_json::json!(hits)
}

/// Contention sub-run: many threads hammer ONE shared searcher with searches
/// that ride deep failure chains (different haystacks per thread), thousands
/// of times, and compare every result with the sequentially computed one.
/// This is where a racy cache inside a search routine would tear.
fn hammer(tier: Tier, ctx: &mut Ctx) -> Result<(), crate::runner::Violation> {
    use crate::case::{Cfg, Sk};
    let iterations = if tier == Tier::Thorough { 6000 } else { 1500 };
    let alphas: [&[u8]; 2] = [b"ab", b"xyz"];
    let mut configs = 0u64;
    for engine in [Engine::TopC, Engine::LowC, Engine::TopNc, Engine::TopDfa, Engine::TopAuto] {
        for mk in Mk::ALL {
            for (ai, alpha) in alphas.iter().enumerate() {
                for kind in [1u8, 3, 4, 5, 44] {
                    // kind 44: prefixes of a^40 b - a state carrying 40 matches
                    let list = if kind == 44 { gen::PatList::Adversarial { kind: 4, k: 40, n: 40 } } else { gen::PatList::Adversarial { kind, k: 9 + ai as u16 * 3, n: 10 } };
                    let patterns = gen::realize_patterns(&list, alpha);
                    let iterations = if kind == 44 { iterations / 6 } else { iterations };
                    let cfg = Cfg { engine, mk, sk: Sk::Unanchored, prefilter: kind % 2 == 0, dense_depth: 1, byte_classes: true, casei: false };
                    let case = Case { prop: "C17".into(), sub: "hammer".into(), cfg: cfg.clone(), patterns: patterns.clone(), threads: 8, ..Case::default() };
                    let fail = |reason: String| crate::runner::Violation { case: case.clone(), reason };
                    let s = Searcher::build(&cfg, &patterns).map_err(|e| fail(e))?;
                    // per-thread haystacks: near-miss repeats of different patterns
                    let hays: Vec<Vec<u8>> = (0..8usize)
                        .map(|t| {
                            let p = &patterns[t % patterns.len()];
                            let q = &patterns[(t * 3 + 1) % patterns.len()];
                            let mut h = Vec::new();
                            while h.len() < 90 {
                                h.extend_from_slice(&p[..p.len().saturating_sub(1)]);
                                h.push(alpha[t % alpha.len()]);
                                h.extend_from_slice(&q[..q.len() / 2]);
                            }
                            h
                        })
                        .collect();
                    // standard kind: the overlapping stepping history (walks
                    // whole match lists); leftmost kinds: the iterator
                    let overlapping = mk == Mk::Standard;
                    let expect: Vec<Vec<crate::model::M>> = hays
                        .iter()
                        .map(|h| {
                            let occ = Occ::new(&patterns, h, false);
                            if overlapping {
                                occ.overlapping(0, h.len(), false)
                            } else {
                                occ.iter(mk, 0, h.len(), false)
                            }
                        })
                        .collect();
                    let barrier = std::sync::Barrier::new(hays.len());
                    let bad: std::sync::Mutex<Option<String>> = std::sync::Mutex::new(None);
                    std::thread::scope(|sc| {
                        for (t, h) in hays.iter().enumerate() {
                            let (s, expect, barrier, bad) = (&s, &expect, &barrier, &bad);
                            sc.spawn(move || {
                                barrier.wait();
                                for it in 0..iterations {
                                    let r = guard(|| {
                                        if overlapping {
                                            s.overlapping_steps(input(h, (0, h.len()), false, false), 0, 1_000_000)
                                        } else {
                                            s.try_find_iter(input(h, (0, h.len()), false, false))
                                        }
                                    });
                                    let ok = matches!(&r, Ok(Ok(v)) if *v == expect[t]);
                                    if !ok {
                                        let mut b = bad.lock().unwrap();
                                        if b.is_none() {
                                            *b = Some(format!(
                                                "contention run: thread {} iteration {} on haystack {:?} got {:?}, sequential model says {:?}",
                                                t,
                                                it,
                                                crate::case::esc::to_string(h),
                                                r.map(|x| x.map_err(|e| e.to_string())),
                                                expect[t]
                                            ));
                                        }
                                        return;
                                    }
                                }
                            });
                        }
                    });
                    if let Some(b) = bad.into_inner().unwrap() {
                        let mut v = fail(b);
                        v.case.ops = hays.iter().map(|h| Op { handle: 0, api: 2, haystack: h.clone(), span: (0, h.len()), anchored: false }).collect();
                        return Err(v);
                    }
                    configs += 1;
                }
            }
        }
    }
    ctx.count("contention_configs", configs);
    ctx.count("contention_searches", configs * 8 * iterations as u64);
    Ok(())
}

/// Stream searches with long patterns (roll buffer larger than the default)
/// interleaved with tiny, empty and exactly-one-pattern streams on the same
/// searcher and on a clone: the result for the long stream must not depend
/// on which stream was searched before it.
fn stream_history(tier: Tier, ctx: &mut Ctx) -> Result<(), crate::runner::Violation> {
    use crate::case::{Cfg, Sk};
    let lens: &[usize] = if tier == Tier::Thorough { &[1024, 4096, 9000, 70_000] } else { &[4096, 9000] };
    let mut runs = 0u64;
    for &l in lens {
        // border-free pseudo-random pattern (linear builds), filler 'z' never occurs in it
        let pat: Vec<u8> = (0..l as u32).map(|i| b'a' + ((i.wrapping_mul(2654435761) >> 11) % 23) as u8).collect();
        let mut long = Vec::new();
        let mut expect = Vec::new();
        for k in 0..6usize {
            long.extend(std::iter::repeat(b'z').take(37 + k * 101));
            expect.push(crate::model::M { pat: 0, start: long.len(), end: long.len() + l });
            long.extend_from_slice(&pat);
        }
        long.extend_from_slice(b"zzz");
        let repl = vec![b"<R>".to_vec()];
        let expect_out_len = long.len() - 6 * l + 6 * 3;
        for engine in [Engine::TopNc, Engine::TopC, Engine::TopDfa, Engine::LowC] {
            let cfg = Cfg { engine, mk: Mk::Standard, sk: Sk::Unanchored, prefilter: true, dense_depth: 2, byte_classes: true, casei: false };
            let case = Case { prop: "C17".into(), sub: "scenario:stream-history".into(), cfg: cfg.clone(), patterns: vec![], params: vec![l as i64], note: format!("one pseudo-random pattern of {} bytes; long stream with 6 occurrences preceded by tiny / empty / one-pattern streams", l), ..Case::default() };
            let fail = |reason: String| crate::runner::Violation { case: case.clone(), reason };
            let s = Searcher::build(&cfg, &[pat.clone()]).map_err(|e| fail(e))?;
            let s2 = clone_searcher(&s);
            let preludes: [&[u8]; 6] = [b"zz", b"", b"z", &pat, &pat[..l - 1], b"zzzzzzzzzzzzzzzzzzzzzzzzzzzzzzzzzzzzzzzz"];
            for (i, pre) in preludes.iter().enumerate() {
                let (a, b) = if i % 2 == 0 { (&s, &s2) } else { (&s2, &s) };
                let r = guard(|| a.stream_find(&pre[..]));
                let want_pre: Vec<crate::model::M> = if pre.len() == l { vec![crate::model::M { pat: 0, start: 0, end: l }] } else { vec![] };
                let ok = matches!(&r, Ok(Ok(v)) if v.len() == want_pre.len() && v.iter().zip(&want_pre).all(|(x, y)| matches!(x, Ok(m) if m == y)));
                if !ok {
                    return Err(fail(format!("stream search of a {}-byte stream (prelude {}) is wrong: {:?}", pre.len(), i, r.map(|x| x.map(|v| v.len())))));
                }
                let r = guard(|| b.stream_find(&long[..]));
                let ok = matches!(&r, Ok(Ok(v)) if v.len() == expect.len() && v.iter().zip(&expect).all(|(x, y)| matches!(x, Ok(m) if m == y)));
                if !ok {
                    return Err(fail(format!(
                        "stream search over the {}-byte stream right after a {}-byte stream (prelude {}): expected 6 matches {:?}, got {:?}",
                        long.len(), pre.len(), i, expect, r.map(|x| x.map(|v| v.into_iter().map(|m| m.map_err(|e| e.to_string())).collect::<Vec<_>>()))
                    )));
                }
                let _ = guard(|| {
                    let mut sink = Vec::new();
                    a.stream_replace_all(&pre[..], &mut sink, &repl)
                });
                let mut out = Vec::new();
                let r = guard(|| b.stream_replace_all(&long[..], &mut out, &repl));
                if !matches!(r, Ok(Ok(()))) || out.len() != expect_out_len {
                    return Err(fail(format!("stream replacement over the {}-byte stream right after a {}-byte stream (prelude {}): expected Ok and {} output bytes, got {:?} and {} bytes", long.len(), pre.len(), i, expect_out_len, r.map(|x| x.map_err(|e| e.to_string())), out.len())));
                }
                runs += 2;
            }
        }
    }
    ctx.count("stream_history_runs", runs);
    ctx.class("scenario:stream-history(long patterns)");
    Ok(())
}

/// First use of a FRESH, large searcher by several threads at once: anything
/// initialised lazily on first use (tables, caches) is raced here. Each
/// attempt builds a new searcher over ~23K patterns (every two-byte string
/// over 150 symbols plus the one-byte strings, so that most match states carry
/// two matches), releases 8 threads with a barrier for their first search
/// (overlapping stepping, iterator, find, is_match on per-thread haystacks)
/// and compares with the model.
fn cold_start(tier: Tier, ctx: &mut Ctx) -> Result<(), crate::runner::Violation> {
    use crate::case::{Cfg, Sk};
    let attempts = if tier == Tier::Thorough { 12 } else { 3 };
    let syms: Vec<u8> = (0..150u32).map(|i| (i + 40) as u8).collect();
    let mut patterns: Vec<Vec<u8>> = Vec::new();
    for &a in &syms {
        for &b in &syms {
            patterns.push(vec![a, b]);
        }
    }
    for &a in &syms {
        patterns.push(vec![a]);
    }
    let hays: Vec<Vec<u8>> = (0..8usize).map(|t| (0..160usize).map(|i| syms[(i * (7 + t) + t * 31 + (i * i) % 11) % syms.len()]).collect()).collect();
    let mut searches = 0u64;
    for mk in [Mk::Standard, Mk::LeftmostFirst] {
        let expect: Vec<(Vec<crate::model::M>, Vec<crate::model::M>)> = hays
            .iter()
            .map(|h| {
                let occ = Occ::new(&patterns, h, false);
                (if mk == Mk::Standard { occ.overlapping(0, h.len(), false) } else { vec![] }, occ.iter(mk, 0, h.len(), false))
            })
            .collect();
        for engine in [Engine::TopNc, Engine::LowNc, Engine::TopC, Engine::TopDfa] {
            let cfg = Cfg { engine, mk, sk: Sk::Unanchored, prefilter: false, dense_depth: 1, byte_classes: true, casei: false };
            let case = Case { prop: "C17".into(), sub: "scenario:cold-start".into(), cfg: cfg.clone(), patterns: vec![], threads: 8, note: "patterns: all two-byte strings over bytes 40..190 plus the one-byte strings; 8 threads make their first search on a fresh searcher at once".into(), ..Case::default() };
            let fail = |reason: String| crate::runner::Violation { case: case.clone(), reason };
            for attempt in 0..attempts {
                let s = Searcher::build(&cfg, &patterns).map_err(|e| fail(e))?;
                let barrier = std::sync::Barrier::new(hays.len());
                let bad: std::sync::Mutex<Option<String>> = std::sync::Mutex::new(None);
                std::thread::scope(|sc| {
                    for (t, h) in hays.iter().enumerate() {
                        let (s, expect, barrier, bad) = (&s, &expect, &barrier, &bad);
                        sc.spawn(move || {
                            barrier.wait();
                            let overlapping = mk == Mk::Standard && t % 2 == 0;
                            let r = guard(|| {
                                if overlapping {
                                    s.overlapping_steps(input(h, (0, h.len()), false, false), 0, 1_000_000)
                                } else {
                                    s.try_find_iter(input(h, (0, h.len()), false, false))
                                }
                            });
                            let want = if overlapping { &expect[t].0 } else { &expect[t].1 };
                            let ok = matches!(&r, Ok(Ok(v)) if v == want);
                            if !ok {
                                let mut b = bad.lock().unwrap();
                                if b.is_none() {
                                    let got = r.map(|x| x.map(|v| v.len()).map_err(|e| e.to_string()));
                                    *b = Some(format!("cold start (attempt {}): thread {}'s first {} search on a fresh searcher returned {:?} matches, the model has {} (first search of all 8 threads released together)", attempt, t, if overlapping { "overlapping" } else { "iterator" }, got, want.len()));
                                }
                            }
                        });
                    }
                });
                if let Some(b) = bad.into_inner().unwrap() {
                    let mut v = fail(b);
                    v.case.ops = hays.iter().map(|h| Op { handle: 0, api: 2, haystack: h.clone(), span: (0, h.len()), anchored: false }).collect();
                    return Err(v);
                }
                searches += 8;
            }
        }
    }
    ctx.count("cold_start_first_searches", searches);
    ctx.class("scenario:cold-start(fresh large searcher, 8 threads)");
    Ok(())
}

/// A searcher that has served a lot of traffic: an overlapping search is
/// started (a few steps), then the searcher and a clone serve several MiB of
/// ordinary searches (anything adaptive - lazily built automata, prefilters
/// that retire themselves, caches - changes state here), then the SAME
/// `OverlappingState` is stepped to the end. The whole sequence must be the
/// model's, and find / earliest / iterator results must be the same before
/// and after the traffic.
fn long_lived(tier: Tier, ctx: &mut Ctx) -> Result<(), crate::runner::Violation> {
    use crate::case::{Cfg, Sk};
    use aho_corasick::automaton::OverlappingState;
    let traffic_mib = if tier == Tier::Thorough { 12 } else { 3 };
    let lists: [Vec<Vec<u8>>; 3] = [
        [&b"abcd"[..], b"bcd", b"cd", b"d", b"ab", b"bca", b"zq", b"Qx", b"k~", b"%%"].iter().map(|p| p.to_vec()).collect(),
        [&b"needle"[..], b"need", b"eedle", b"dle", b"e", b"xyzzy", b"Jq", b"~#", b"@k", b"0Z"].iter().map(|p| p.to_vec()).collect(),
        // every pattern >= 2 bytes, many first and rare bytes (packed prefilter); the
        // first pattern has a later, shorter pattern as a prefix (earliest mode differs)
        [&b"abcd"[..], b"bcd", b"cd", b"zq", b"Qx", b"k~", b"%%", b"ab", b"bca", b"Jw"].iter().map(|p| p.to_vec()).collect(),
    ];
    let mut rounds = 0u64;
    for (li, patterns) in lists.iter().enumerate() {
        // probe haystack: many overlapping occurrences
        let mut probe = Vec::new();
        for k in 0..14usize {
            probe.extend_from_slice(&patterns[k % 3]);
            probe.extend_from_slice(&patterns[0][..1 + k % 3]);
            probe.push(b' ');
        }
        // traffic haystack: 64 KiB with sparse matches and many near misses
        let mut traffic = Vec::with_capacity(70_000);
        while traffic.len() < 65_536 {
            traffic.extend_from_slice(b"lorem ipsum dolor sit amet ");
            traffic.extend_from_slice(&patterns[0][..patterns[0].len() - 1]);
            traffic.extend_from_slice(b" consectetur ");
            if traffic.len() % 7 == 0 {
                traffic.extend_from_slice(&patterns[1]);
            }
        }
        for mk in Mk::ALL {
            let occ = Occ::new(patterns, &probe, false);
            for engine in [Engine::TopAuto, Engine::TopNc, Engine::TopC, Engine::TopDfa] {
                for prefilter in [true, false] {
                    let cfg = Cfg { engine, mk, sk: Sk::Unanchored, prefilter, dense_depth: 2, byte_classes: true, casei: false };
                    let case = Case { prop: "C17".into(), sub: "scenario:long-lived".into(), cfg: cfg.clone(), patterns: patterns.clone(), haystack: probe.clone(), span: (0, probe.len()), note: format!("{} MiB of ordinary searches between the steps of one overlapping search / the items of one iterator", traffic_mib), ..Case::default() };
                    let fail = |reason: String| crate::runner::Violation { case: case.clone(), reason };
                    let s = Searcher::build(&cfg, patterns).map_err(|e| fail(e))?;
                    let s2 = clone_searcher(&s);
                    let inp = || input(&probe, (0, probe.len()), false, false);
                    let before = guard(|| (s.try_find(inp()), s.try_find(input(&probe, (0, probe.len()), false, true)), s.try_find_iter(inp())));
                    // start an overlapping search (standard kind only) and leave it in flight
                    let want_ov = occ.overlapping(0, probe.len(), false);
                    let mut st = OverlappingState::start();
                    let mut got_ov = Vec::new();
                    if mk == Mk::Standard {
                        for _ in 0..3 {
                            let r = guard(|| s.try_find_overlapping(inp(), &mut st));
                            if !matches!(r, Ok(Ok(()))) {
                                return Err(fail(format!("overlapping step failed: {:?}", r.map(|x| x.map_err(|e| e.to_string())))));
                            }
                            if let Some(m) = st.get_match() {
                                got_ov.push(to_m(m));
                            }
                        }
                    }
                    // traffic on the searcher and on its clone
                    let mut total = 0usize;
                    let mut k = 0usize;
                    while total < traffic_mib << 20 {
                        let who = if k % 2 == 0 { &s } else { &s2 };
                        let start = (k * 37) % 4096;
                        let r = guard(|| who.try_find(input(&traffic, (start, traffic.len()), false, false)));
                        if !matches!(r, Ok(Ok(_))) {
                            return Err(fail(format!("traffic search failed: {:?}", r.map(|x| x.map_err(|e| e.to_string())))));
                        }
                        // most traffic haystacks end in a match-free stretch so that the whole span is scanned
                        let r = guard(|| who.try_find(input(&traffic[..60_000], (start, 60_000), false, false)));
                        let _ = r;
                        total += 2 * 60_000;
                        k += 1;
                    }
                    // ... and a burst of tiny searches in which a prefilter
                    // skips next to nothing (adaptive heuristics see their worst case)
                    for j in 0..400usize {
                        let who = if j % 2 == 0 { &s2 } else { &s };
                        let st0 = j % 9;
                        let r = guard(|| who.try_find(input(&probe, (st0, probe.len()), false, false)));
                        if !matches!(r, Ok(Ok(_))) {
                            return Err(fail(format!("burst search failed: {:?}", r.map(|x| x.map_err(|e| e.to_string())))));
                        }
                    }
                    // finish the in-flight overlapping search
                    if mk == Mk::Standard {
                        for _ in 0..(want_ov.len() + 3) {
                            let r = guard(|| s.try_find_overlapping(inp(), &mut st));
                            if !matches!(r, Ok(Ok(()))) {
                                return Err(fail(format!("overlapping step after {} MiB of traffic failed: {:?}", traffic_mib, r.map(|x| x.map_err(|e| e.to_string())))));
                            }
                            match st.get_match() {
                                Some(m) => got_ov.push(to_m(m)),
                                None => break,
                            }
                        }
                        if got_ov != want_ov {
                            let k = got_ov.iter().zip(&want_ov).take_while(|(a, b)| a == b).count();
                            return Err(fail(format!("an overlapping search stepped 3 times before and to the end after {} MiB of other searches differs from the model at index {}: expected {:?}, got {:?} ({} vs {} matches)", traffic_mib, k, want_ov.get(k), got_ov.get(k), want_ov.len(), got_ov.len())));
                        }
                    }
                    let after = guard(|| (s.try_find(inp()), s.try_find(input(&probe, (0, probe.len()), false, true)), s.try_find_iter(inp())));
                    let (b, a) = match (before, after) {
                        (Ok(b), Ok(a)) => (b, a),
                        (b, a) => return Err(fail(format!("probe searches panicked: before {:?} / after {:?}", b.is_ok(), a.is_ok()))),
                    };
                    let fmt = |x: &(Result<Option<crate::model::M>, aho_corasick::MatchError>, Result<Option<crate::model::M>, aho_corasick::MatchError>, Result<Vec<crate::model::M>, aho_corasick::MatchError>)| format!("find {:?}, earliest {:?}, iter {:?}", x.0.as_ref().map_err(|e| e.to_string()), x.1.as_ref().map_err(|e| e.to_string()), x.2.as_ref().map(|v| v.len()).map_err(|e| e.to_string()));
                    let same = format!("{:?}", (b.0.as_ref().ok(), b.1.as_ref().ok(), b.2.as_ref().ok())) == format!("{:?}", (a.0.as_ref().ok(), a.1.as_ref().ok(), a.2.as_ref().ok()));
                    if !same {
                        return Err(fail(format!("results on the same input changed after {} MiB of other searches: before [{}], after [{}]", traffic_mib, fmt(&b), fmt(&a))));
                    }
                    let want_find = occ.find(mk, 0, probe.len(), false);
                    let want_iter = occ.iter(mk, 0, probe.len(), false);
                    if !matches!(&a.0, Ok(m) if *m == want_find) || !matches!(&a.2, Ok(v) if *v == want_iter) {
                        return Err(fail(format!("results after {} MiB of traffic differ from the model: [{}], model find {:?}, iter {} matches", traffic_mib, fmt(&a), want_find, want_iter.len())));
                    }
                    rounds += 1;
                    let _ = li;
                }
            }
        }
    }
    ctx.count("long_lived_rounds", rounds);
    ctx.class("scenario:long-lived(MiB of traffic between the steps of one search)");
    Ok(())
}

fn c17_extra(tier: Tier, _seed: u64, ctx: &mut Ctx) -> Result<bool, crate::runner::Violation> {
    long_lived(tier, ctx)?;
    stream_history(tier, ctx)?;
    cold_start(tier, ctx)?;
    hammer(tier, ctx)?;
    let hits = source_scan();
    ctx.count("interior_mutability_keyword_hits_outside_hooks", hits.as_array().map_or(0, |a| a.len()) as u64);
    if let Some(a) = hits.as_array() {
        for h in a.iter().take(8) {
            ctx.class(&format!("source-scan-hit (context only): {}", h.as_str().unwrap_or("")));
        }
    }
    Ok(false)
}

pub const C17: PropDef = PropDef {
    id: "C17",
    rule: "generated histories of 2..10 operations (find, earliest, find_iter, overlapping steps, is_match, replace_all_bytes, stream search, packed find_iter, a replace call issued from inside another replace call's closure, replace_all_with that stops at the second match) over {searcher, clone, clone of clone, a second searcher with longer patterns derived from the same list, its clone} x generated haystacks/spans/anchoring (stream searches use 1..4-byte reads at the default buffer capacity), all engines and match kinds. \
Before the history, two pattern lists with equal count and equal concatenation (a separator-like byte 0xFF/0x00/','/newline moved across one pattern boundary) are built back to back (for top-level engines from one and the same AhoCorasickBuilder object) and each must behave like the list it was built from. Oracle: (1) sequential: every value-defined result equals the reference model; (2) history independence: every operation re-run later, in reverse order and on each handle of the same searcher, returns the identical value; \
(3) concurrency: 2..8 threads (released together by a barrier) run rotated slices of the history three times on the shared searchers and clones, every result must equal the sequential one; an in-flight counter measures whether searches actually overlapped. \
A contention sub-run hammers one shared searcher per (5 engines x 3 match kinds x 10 adversarial deep-failure-chain pattern sets incl. one whose states carry 40 matches; overlapping stepping for the standard kind, the iterator otherwise) from 8 barrier-released threads, each repeating its own chain-riding search 1500 (thorough 6000) times against the sequential model result. A keyword scan of /repo/src for interior mutability outside the verification hooks is recorded as context only (it never produces a violation). \
Non-trivial = at least two searches were in flight at the same time and the history uses at least two different handles. Distinct = distinct case fingerprint.",
    assumptions: &[
        "interleavings are sampled by the OS scheduler, not enumerated; this family cannot decide the schedule quantifier exhaustively",
        "the verification hooks' own thread-local counters are excluded (they exist only under cfg(aho_corasick_verif))",
    ],
    cases_quick: 10_000,
    cases_thorough: 200_000,
    strategy: c17_strategy,
    check: c17_check,
    extra: Some(c17_extra),
    floors: &[("searches-overlapped-in-time", 5_000)],
};

#[allow(dead_code)]
fn _e(_: Engine) {}
