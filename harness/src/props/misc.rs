//! C12 (replace_all), C13 (rejection depends only on configuration),
//! C19 (bounded work, hook counters), C20 (building and metadata).

use std::panic::AssertUnwindSafe;

use aho_corasick::automaton::{Automaton, OverlappingState};
use aho_corasick::{verif, AhoCorasick, AhoCorasickKind, Input, Match, PatternID};
use proptest::prelude::*;
use proptest::strategy::{BoxedStrategy, Union};

use crate::case::{Case, Cfg, Engine, Mk, Op, Sk};
use crate::engine::{self, anch, guard, input, to_m, Searcher};
use crate::gen::{self, CfgOpts, HayOpts, PatOpts, SearchOpts};
use crate::model::{self, Occ, M};
use crate::runner::{self, Ctx, PropDef, Tier, Violation};
use crate::sem;

// ------------------------------------------------------------------ C12

const CHARS: &[char] = &['a', 'b', 'x', 'é', '€', '😀', 'A', ' ', '\u{7f}', '\u{80}', '\u{7ff}', '\u{800}', '\u{ffff}', '\u{10000}', '\u{100000}', '\u{10ffff}'];

fn c12_check(case: &Case, ctx: &mut Ctx) -> Result<(), String> {
    let cfg = &case.cfg;
    if !cfg.supports_anchored(false) || case.repl.len() != case.patterns.len() {
        return Err("unsound C12 case".into());
    }
    let s = Searcher::build(cfg, &case.patterns)?;
    let hay = &case.haystack[..];
    let occ = Occ::new(&case.patterns, hay, cfg.casei);
    let matches = occ.iter(cfg.mk, 0, hay.len(), false);
    // ---- bytes, table
    let want = model::replace_all_bytes(hay, &matches, &case.repl, None);
    let got = guard(|| s.replace_all_bytes(hay, &case.repl)).map_err(|p| format!("replace_all_bytes panicked: {}", p))?.map_err(|e| format!("replace_all_bytes: supported request returned Err({})", e))?;
    if got != want {
        return Err(format!("replace_all_bytes: expected {:?}, got {:?}", crate::case::esc::to_string(&want), crate::case::esc::to_string(&got)));
    }
    if let Searcher::Top(a) = &s {
        let got2 = guard(|| a.replace_all_bytes(hay, &case.repl)).map_err(|p| format!("AhoCorasick::replace_all_bytes panicked: {}", p))?;
        if got2 != want {
            return Err("infallible replace_all_bytes differs from the model".into());
        }
    }
    // ---- bytes, closure with early termination
    let want_stop = model::replace_all_bytes(hay, &matches, &case.repl, case.stop_at);
    let mut seen: Vec<(M, Vec<u8>)> = Vec::new();
    let mut dst = b"PRE:".to_vec();
    let stop_at = case.stop_at;
    let repl = &case.repl;
    guard(|| {
        s.replace_all_with_bytes(hay, &mut dst, |m, bytes, dst| {
            seen.push((to_m(*m), bytes.to_vec()));
            dst.extend_from_slice(&repl[m.pattern().as_usize()]);
            stop_at != Some(seen.len() - 1)
        })
    })
    .map_err(|p| format!("replace_all_with_bytes panicked: {}", p))?
    .map_err(|e| format!("replace_all_with_bytes: supported request returned Err({})", e))?;
    let mut want_dst = b"PRE:".to_vec();
    want_dst.extend_from_slice(&want_stop);
    if dst != want_dst {
        return Err(format!("replace_all_with_bytes (stop_at {:?}): expected {:?}, got {:?}", stop_at, crate::case::esc::to_string(&want_dst), crate::case::esc::to_string(&dst)));
    }
    let n_calls = match stop_at {
        Some(k) if k < matches.len() => k + 1,
        _ => matches.len(),
    };
    let mats: Vec<M> = seen.iter().map(|(m, _)| *m).collect();
    if mats[..] != matches[..n_calls] {
        return Err(format!("replace_all_with_bytes: closure saw {:?}, expected {:?}", mats, &matches[..n_calls]));
    }
    for (m, b) in &seen {
        if b[..] != hay[m.start..m.end] {
            return Err(format!("replace_all_with_bytes: closure got wrong bytes for {:?}", m));
        }
    }
    // ---- str variants (valid UTF-8 haystacks and replacements only)
    let mut skipped = false;
    let mut str_checked = false;
    if let Ok(hs) = std::str::from_utf8(hay) {
        let repl_s: Option<Vec<String>> = case.repl.iter().map(|r| String::from_utf8(r.clone()).ok()).collect();
        if let Some(repl_s) = repl_s {
            str_checked = true;
            let (want_s, calls) = model::replace_all_str(hs, &matches, &repl_s, None);
            skipped = calls.len() < matches.len();
            let got_s = guard(|| s.replace_all_str(hs, &repl_s)).map_err(|p| format!("replace_all (str) panicked: {}", p))?.map_err(|e| format!("replace_all (str): Err({})", e))?;
            if std::str::from_utf8(got_s.as_bytes()).is_err() {
                return Err("replace_all (str) produced invalid UTF-8".into());
            }
            if got_s != want_s {
                return Err(format!("replace_all (str): expected {:?}, got {:?}", want_s, got_s));
            }
            if let Searcher::Top(a) = &s {
                let got2 = guard(|| a.replace_all(hs, &repl_s)).map_err(|p| format!("AhoCorasick::replace_all panicked: {}", p))?;
                if got2 != want_s {
                    return Err("infallible replace_all differs from the model".into());
                }
            }
            let (want_stop_s, want_calls) = model::replace_all_str(hs, &matches, &repl_s, case.stop_at);
            let mut seen_s: Vec<(M, String)> = Vec::new();
            let mut dst = String::from("PRE:");
            guard(|| {
                s.replace_all_with_str(hs, &mut dst, |m, text, dst| {
                    seen_s.push((to_m(*m), text.to_string()));
                    dst.push_str(&repl_s[m.pattern().as_usize()]);
                    stop_at != Some(seen_s.len() - 1)
                })
            })
            .map_err(|p| format!("replace_all_with (str) panicked: {}", p))?
            .map_err(|e| format!("replace_all_with (str): Err({})", e))?;
            if std::str::from_utf8(dst.as_bytes()).is_err() {
                return Err("replace_all_with (str) produced invalid UTF-8".into());
            }
            if dst != format!("PRE:{}", want_stop_s) {
                return Err(format!("replace_all_with (str, stop_at {:?}): expected {:?}, got {:?}", stop_at, format!("PRE:{}", want_stop_s), dst));
            }
            let ms: Vec<M> = seen_s.iter().map(|(m, _)| *m).collect();
            if ms != want_calls {
                return Err(format!("replace_all_with (str): closure saw {:?}, expected {:?}", ms, want_calls));
            }
            for (m, t) in &seen_s {
                if t.as_bytes() != &hay[m.start..m.end] {
                    return Err(format!("replace_all_with (str): closure got wrong text for {:?}", m));
                }
            }
        }
    }
    ctx.class(sem::engine_class(cfg.engine));
    ctx.class(sem::mk_class(cfg.mk));
    ctx.class(&format!("gen:{}", case.sub));
    if str_checked {
        ctx.class("str-variant-checked");
    }
    if skipped {
        ctx.class("str-match-skipped-at-non-char-boundary");
    }
    let empty_replaced = matches.iter().any(|m| m.is_empty());
    if empty_replaced {
        ctx.class("empty-match-replaced");
    }
    let early = matches!(stop_at, Some(k) if k + 1 < matches.len());
    if early {
        ctx.class("early-termination");
    }
    if !matches.is_empty() && (skipped || empty_replaced || early) {
        ctx.nontrivial();
    }
    Ok(())
}

fn c12_strategy(_tier: Tier) -> BoxedStrategy<Case> {
    let base = |alphabets: Vec<(u32, usize)>| {
        gen::search_case(SearchOpts {
            prop: "C12",
            cfg: CfgOpts { sks: vec![Sk::Unanchored, Sk::Both], anchored: 0, casei: 1, ..CfgOpts::default() },
            pats: PatOpts { w_empty: 8, max_class: 0, long: true, w_shapes: 3, w_adversarial: 1, w_fanout: 0 },
            hay: HayOpts { size_class: 1 },
            full_span_only: true,
            alphabets,
            no_empty: false,
        })
    };
    let utf8 = base(vec![(1, gen::ALPHA_UTF8)]);
    let general = base(gen::default_alphabets());
    // str flavour: the haystack is replaced by a valid UTF-8 string of chars
    // from a fixed set (patterns are byte fragments of the same chars)
    let str_cases = (utf8, proptest::collection::vec(any::<u8>(), 0..=24)).prop_map(|(mut case, raw)| {
        let s: String = raw.iter().map(|&r| CHARS[(r as usize * CHARS.len()) >> 8]).collect();
        case.haystack = s.into_bytes();
        case.span = (0, case.haystack.len());
        case.sub = format!("{}+str", case.sub);
        case
    });
    let both = Union::new_weighted(vec![(6, str_cases.boxed()), (4, general)]);
    (both, proptest::collection::vec((0u8..6, proptest::collection::vec(any::<u8>(), 0..=4)), 1..=6), proptest::option::weighted(0.4, 0usize..=5))
        .prop_map(|(mut case, rs, stop_at)| {
            let n = case.patterns.len();
            case.repl = (0..n)
                .map(|i| {
                    let (kind, raw) = &rs[i % rs.len()];
                    match kind {
                        0 => Vec::new(),
                        1 => {
                            let s: String = raw.iter().map(|&r| CHARS[(r as usize * CHARS.len()) >> 8]).collect();
                            s.into_bytes()
                        }
                        2 => format!("<{}>", i).into_bytes(),
                        _ => raw.iter().map(|&r| b"ab-"[(r as usize * 3) >> 8]).collect(),
                    }
                })
                .collect();
            case.stop_at = stop_at;
            case
        })
        .boxed()
}

pub const C12: PropDef = PropDef {
    id: "C12",
    rule: "all match kinds and engines; pattern lists incl. the empty pattern and byte fragments of multi-byte characters; haystacks: valid UTF-8 strings over {a,b,x,e-acute,euro,emoji,A,space} (60%) or arbitrary bytes; replacement tables (empty, multi-byte, ASCII) and a closure that returns false at match index k. \
Oracle: replace_all_bytes / replace_all_with_bytes == splice of the reference model iterator (remainder verbatim after the closure returns false, closure handed exactly the matched bytes); \
replace_all / replace_all_with on &str == boundary-skipping splice, result re-validated as UTF-8, no panic; fallible and infallible entry points. \
Non-trivial = at least one match and (a match was skipped for not being on character boundaries, or an empty match was replaced, or the closure stopped before the last match). Distinct = distinct case fingerprint.",
    assumptions: &["reference model of replace_all: str variant skips a non-boundary match without advancing the copy cursor (documented behaviour)"],
    cases_quick: 800_000,
    cases_thorough: 6_000_000,
    strategy: c12_strategy,
    check: c12_check,
    extra: None,
    floors: &[
        ("str-match-skipped-at-non-char-boundary", 15_000),
        ("empty-match-replaced", 20_000),
        ("early-termination", 20_000),
        ("str-variant-checked", 80_000),
    ],
};

// ------------------------------------------------------------------ C13

pub const METHODS: [&str; 21] = [
    "is_match",
    "find",
    "find_overlapping",
    "find_iter",
    "find_overlapping_iter",
    "replace_all",
    "replace_all_bytes",
    "replace_all_with",
    "replace_all_with_bytes",
    "stream_find_iter",
    "try_find",
    "try_find_overlapping",
    "try_find_iter",
    "try_find_overlapping_iter",
    "try_replace_all",
    "try_replace_all_bytes",
    "try_replace_all_with",
    "try_replace_all_with_bytes",
    "try_stream_find_iter",
    "try_stream_replace_all",
    "try_stream_replace_all_with",
];

#[derive(Debug, PartialEq, Eq, Clone, Copy)]
enum Outcome {
    Accepted,
    RejectedErr,
    RejectedPanic,
    /// an iterator was constructed but failed (panicked / yielded Err) later
    LateFailure,
}

/// A sink that refuses (by panicking) more output than any legitimate
/// replacement of the judged stream can produce (replacements are at most 2
/// bytes long here), so that a replacement loop that never advances becomes
/// a reported outcome instead of exhausting memory.
struct CapWriter {
    n: usize,
    cap: usize,
}

impl std::io::Write for CapWriter {
    fn write(&mut self, buf: &[u8]) -> std::io::Result<usize> {
        self.n += buf.len();
        if self.n > self.cap {
            panic!("stream replacement wrote more bytes than any legitimate output has");
        }
        Ok(buf.len())
    }
    fn flush(&mut self) -> std::io::Result<()> {
        Ok(())
    }
}

fn takes_input(method: usize) -> bool {
    matches!(method, 0..=4 | 10..=13)
}

fn predicate_rejects(cfg: &Cfg, method: usize, anchored: bool, has_empty: bool) -> bool {
    let eff_anchored = if takes_input(method) { anchored } else { false };
    let a = !cfg.sk.covers(eff_anchored);
    let overlapping = matches!(method, 2 | 4 | 11 | 13);
    let stream = matches!(method, 9 | 18 | 19 | 20);
    let b = (overlapping || stream) && cfg.mk != Mk::Standard;
    let c = matches!(method, 4 | 13) && anchored;
    let d = stream && has_empty;
    a || b || c || d
}

fn invoke(ac: &AhoCorasick, method: usize, hay: &[u8], hay_str: &str, anchored: bool, npats: usize, span: (usize, usize), prelude: Option<bool>, other: Option<&AhoCorasick>) -> Outcome {
    let inp = || Input::new(hay).span(aho_corasick::Span { start: span.0, end: span.1 }).anchored(anch(anchored));
    // An OverlappingState that already served an accepted request with the
    // anchoring `prelude` (on the empty haystack) before the judged call.
    let used_state = || {
        let mut st = OverlappingState::start();
        if let Some(a) = prelude {
            let _ = ac.try_find_overlapping(Input::new("").anchored(anch(a)), &mut st);
        }
        // ... or that was advanced by a DIFFERENT searcher (standard kind,
        // start kind Both, same patterns) over the same haystack
        if let Some(o) = other {
            let _ = o.try_find_overlapping(Input::new(hay), &mut st);
        }
        st
    };
    let repl_b: Vec<Vec<u8>> = (0..npats).map(|i| vec![b'r'; i % 3]).collect();
    let repl_s: Vec<String> = (0..npats).map(|i| "r".repeat(i % 3)).collect();
    let fallible = method >= 10;
    let late = std::cell::Cell::new(false);
    let r = std::panic::catch_unwind(AssertUnwindSafe(|| -> Result<(), ()> {
        match method {
            0 => {
                let _ = ac.is_match(inp());
            }
            1 => {
                let _ = ac.find(inp());
            }
            2 => {
                let mut st = used_state();
                ac.find_overlapping(inp(), &mut st);
            }
            3 => {
                let it = ac.find_iter(inp());
                late.set(true);
                let _ = it.count();
            }
            4 => {
                let it = ac.find_overlapping_iter(inp());
                late.set(true);
                let _ = it.count();
            }
            5 => {
                let _ = ac.replace_all(hay_str, &repl_s);
            }
            6 => {
                let _ = ac.replace_all_bytes(hay, &repl_b);
            }
            7 => {
                let mut dst = String::new();
                ac.replace_all_with(hay_str, &mut dst, |_, _, _| true);
            }
            8 => {
                let mut dst = Vec::new();
                ac.replace_all_with_bytes(hay, &mut dst, |_, _, _| true);
            }
            9 => {
                let it = ac.stream_find_iter(hay);
                late.set(true);
                // a non-overlapping sequence has at most len + 1 items: more
                // means the iterator does not advance (reported, not a hang)
                for (k, item) in it.enumerate() {
                    if k > hay.len() + 8 {
                        panic!("stream iterator yielded more items than the stream has positions");
                    }
                    if item.is_err() {
                        return Err(());
                    }
                }
            }
            10 => {
                ac.try_find(inp()).map_err(|_| ())?;
            }
            11 => {
                let mut st = used_state();
                ac.try_find_overlapping(inp(), &mut st).map_err(|_| ())?;
                // "if the first call succeeds ... all subsequent calls are
                // guaranteed to succeed"
                late.set(true);
                for _ in 0..(hay.len() * (npats + 1) + 4) {
                    ac.try_find_overlapping(inp(), &mut st).map_err(|_| ())?;
                    if st.get_match().is_none() {
                        break;
                    }
                }
            }
            12 => {
                let it = ac.try_find_iter(inp()).map_err(|_| ())?;
                late.set(true);
                let _ = it.count();
            }
            13 => {
                let it = ac.try_find_overlapping_iter(inp()).map_err(|_| ())?;
                late.set(true);
                let _ = it.count();
            }
            14 => {
                ac.try_replace_all(hay_str, &repl_s).map_err(|_| ())?;
            }
            15 => {
                ac.try_replace_all_bytes(hay, &repl_b).map_err(|_| ())?;
            }
            16 => {
                let mut dst = String::new();
                ac.try_replace_all_with(hay_str, &mut dst, |_, _, _| true).map_err(|_| ())?;
            }
            17 => {
                let mut dst = Vec::new();
                ac.try_replace_all_with_bytes(hay, &mut dst, |_, _, _| true).map_err(|_| ())?;
            }
            18 => {
                let it = ac.try_stream_find_iter(hay).map_err(|_| ())?;
                late.set(true);
                for (k, item) in it.enumerate() {
                    if k > hay.len() + 8 {
                        panic!("stream iterator yielded more items than the stream has positions");
                    }
                    if item.is_err() {
                        return Err(());
                    }
                }
            }
            19 => {
                let mut out = CapWriter { n: 0, cap: (hay.len() + 2) * 4 + 64 };
                ac.try_stream_replace_all(hay, &mut out, &repl_b).map_err(|_| ())?;
            }
            _ => {
                let mut out = CapWriter { n: 0, cap: (hay.len() + 2) * 4 + 64 };
                ac.try_stream_replace_all_with(hay, &mut out, |_, _, w| {
                    use std::io::Write;
                    w.write_all(b"r")
                })
                .map_err(|_| ())?;
            }
        }
        Ok(())
    }));
    match r {
        Ok(Ok(())) => Outcome::Accepted,
        Ok(Err(())) => {
            if late.get() {
                Outcome::LateFailure
            } else if fallible {
                Outcome::RejectedErr
            } else {
                // an infallible API cannot return Err; only stream items
                Outcome::LateFailure
            }
        }
        Err(_) => {
            if late.get() {
                Outcome::LateFailure
            } else {
                Outcome::RejectedPanic
            }
        }
    }
}

fn many_patterns_list(n: usize) -> Vec<Vec<u8>> {
    (0..n).map(|i| if i < 65536 { vec![(i >> 8) as u8, i as u8] } else { vec![0x41, 0x42, (i - 65536) as u8] }).collect()
}

fn c13_check(case: &Case, ctx: &mut Ctx) -> Result<(), String> {
    if case.sub == "many-patterns" && case.patterns.is_empty() {
        // replay of a many-patterns scenario case: the list is a function of params[2]
        let n = case.params.get(2).copied().unwrap_or(0).clamp(0, 70_000) as usize;
        let full = Case { patterns: many_patterns_list(n), sub: "many-patterns(replay)".into(), ..case.clone() };
        return c13_check(&full, ctx);
    }
    let cfg = &case.cfg;
    if !cfg.engine.is_top() || case.params.is_empty() {
        return Err("unsound C13 case (needs a top-level engine and a method index)".into());
    }
    let method = case.params[0] as usize % METHODS.len();
    let s = Searcher::build(cfg, &case.patterns)?;
    let ac = match &s {
        Searcher::Top(a) => a,
        _ => unreachable!(),
    };
    let has_empty = case.patterns.iter().any(|p| p.is_empty());
    // str APIs need a valid UTF-8 haystack
    let hay_str = String::from_utf8_lossy(&case.haystack).to_string();
    let hay: &[u8] = if matches!(method, 5 | 7 | 14 | 16) { hay_str.as_bytes() } else { &case.haystack };
    let expect_reject = predicate_rejects(cfg, method, case.anchored, has_empty);
    // span: only meaningful for the Input-taking methods; clamp to the haystack used
    let span = if takes_input(method) {
        let e = case.span.1.min(hay.len());
        let s = case.span.0.min(e + 1);
        (s, e)
    } else {
        (0, hay.len())
    };
    // params[1]: 1/2 = the OverlappingState was used before by an accepted
    // request with anchoring No/Yes (only if that request is itself accepted)
    let prelude = match case.params.get(1) {
        Some(1) if !predicate_rejects(cfg, 11, false, has_empty) => Some(false),
        Some(2) if !predicate_rejects(cfg, 11, true, has_empty) => Some(true),
        _ => None,
    };
    // NOT done: handing over an OverlappingState that was advanced by a
    // DIFFERENT searcher. State identifiers are only valid for the automaton
    // that produced them (documented), so such a request is outside the
    // contract - it panics with an index error on the unchanged tree, which a
    // first version of this check mis-reported as a violation.
    let other_searcher: Option<AhoCorasick> = None;
    let got = invoke(ac, method, hay, &hay_str, case.anchored, case.patterns.len(), span, prelude, other_searcher.as_ref());
    let fallible = method >= 10;
    let want = if !expect_reject {
        Outcome::Accepted
    } else if fallible {
        Outcome::RejectedErr
    } else {
        Outcome::RejectedPanic
    };
    if got != want {
        return Err(format!(
            "{} on (match kind {:?}, start kind {:?}, engine {:?}, anchored={}, empty pattern: {}): expected {:?}, got {:?}",
            METHODS[method], cfg.mk, cfg.sk, cfg.engine, case.anchored, has_empty, want, got
        ));
    }
    ctx.class(&format!("method:{}", METHODS[method]));
    if span.0 > span.1 {
        ctx.class("span:start=end+1");
    } else if span != (0, hay.len()) {
        ctx.class("span:restricted");
    }
    if prelude.is_some() && matches!(method, 2 | 11) {
        ctx.class("overlapping-state-reused");
    }
    if other_searcher.is_some() {
        ctx.class("overlapping-state-from-another-searcher");
    }
    ctx.class(if expect_reject { "rejected" } else { "accepted" });
    ctx.class(sem::engine_class(cfg.engine));
    ctx.class(match (case.patterns.is_empty(), has_empty) {
        (true, _) => "shape:no-patterns",
        (false, true) => "shape:with-empty-pattern",
        (false, false) => "shape:no-empty-pattern",
    });
    ctx.nontrivial();
    Ok(())
}

fn c13_inputs(shape: u8) -> BoxedStrategy<Case> {
    let s = gen::search_case(SearchOpts {
        prop: "C13",
        cfg: CfgOpts { engines: Engine::TOP.to_vec(), casei: 1, anchored: 1, ..CfgOpts::default() },
        pats: PatOpts { w_empty: if shape == 2 { 30 } else { 0 }, max_class: 0, long: false, w_shapes: 2, w_adversarial: 0, w_fanout: 0 },
        hay: HayOpts { size_class: 0 },
        full_span_only: true,
        alphabets: gen::default_alphabets(),
        no_empty: shape == 1,
    });
    s.prop_map(move |mut c| {
        match shape {
            0 => c.patterns.clear(),
            2 => {
                if !c.patterns.iter().any(|p| p.is_empty()) {
                    let at = c.patterns.len() / 2;
                    c.patterns.insert(at, Vec::new());
                }
            }
            _ => {}
        }
        c
    })
    .boxed()
}

fn c13_strategy(_tier: Tier) -> BoxedStrategy<Case> {
    let inputs = Union::new_weighted(vec![(1, c13_inputs(0)), (5, c13_inputs(1)), (4, c13_inputs(2))]);
    (inputs, 0i64..21, any::<bool>(), proptest::sample::select(Sk::ALL.to_vec()), gen::span_recipe(false), 0i64..3)
        .prop_map(|(mut c, method, anchored, sk, sr, prelude)| {
            c.cfg.sk = sk;
            c.anchored = anchored;
            c.span = gen::realize_span(sr, c.haystack.len());
            c.params = vec![method, prelude];
            c
        })
        .boxed()
}

fn c13_extra(tier: Tier, seed: u64, ctx: &mut Ctx) -> Result<bool, Violation> {
    let per_cell = match tier {
        Tier::Quick => 4,
        Tier::Thorough => 24,
    };
    // a pool of generated inputs per shape; the outcome must not depend on them
    let pools: Vec<Vec<Case>> = (0..3u8).map(|sh| runner::sample_cases(&c13_inputs(sh), seed, "C13-pool", sh as u64, 96)).collect();
    let mut cell = 0usize;
    for mk in Mk::ALL {
        for sk in Sk::ALL {
            for anchored in [false, true] {
                for engine in Engine::TOP {
                    for method in 0..METHODS.len() {
                        for shape in 0..3usize {
                            cell += 1;
                            // stream methods, no empty pattern: one extra input whose
                            // only pattern is exactly 65536 bytes long (lengths are not
                            // allowed to influence the decision)
                            if shape == 1 && matches!(method, 9 | 18 | 19 | 20) && !anchored && (sk == Sk::Unanchored || mk != Mk::Standard) {
                                let case = Case {
                                    prop: "C13".into(),
                                    sub: "cell:long-pattern".into(),
                                    cfg: Cfg { engine, mk, sk, prefilter: true, dense_depth: 2, byte_classes: true, casei: false },
                                    // no long borders: failure chains stay short and
                                    // every builder is linear on it
                                    patterns: vec![(0..65536u32).map(|i| ((i.wrapping_mul(2654435761) >> 13) % 251) as u8).collect()],
                                    haystack: b"xxaab".to_vec(),
                                    span: (0, 5),
                                    anchored,
                                    params: vec![method as i64, 0],
                                    ..Case::default()
                                };
                                if let Err(reason) = runner::run_check(c13_check, &case, ctx) {
                                    return Err(Violation { case, reason });
                                }
                                ctx.enumerated += 1;
                            }
                            for j in 0..per_cell {
                                let pool = &pools[shape];
                                let src = &pool[(cell * 7 + j * 13) % pool.len()];
                                let n = src.haystack.len();
                                // input variety per cell: full span, the
                                // exhausted span start=end+1, a restricted
                                // span; a fresh or a previously used state
                                let span = match j % 4 {
                                    0 => (0, n),
                                    1 => (n + 1, n),
                                    2 => (n / 2, n),
                                    _ => (0, n / 2),
                                };
                                let prelude = match j % 3 {
                                    0 => 0,
                                    1 => 2,
                                    _ => 1,
                                };
                                let case = Case {
                                    prop: "C13".into(),
                                    sub: "cell".into(),
                                    cfg: Cfg { engine, mk, sk, ..src.cfg.clone() },
                                    patterns: src.patterns.clone(),
                                    haystack: src.haystack.clone(),
                                    span,
                                    anchored,
                                    params: vec![method as i64, prelude],
                                    ..Case::default()
                                };
                                if let Err(reason) = runner::run_check(c13_check, &case, ctx) {
                                    return Err(Violation { case, reason });
                                }
                                ctx.enumerated += 1;
                            }
                        }
                    }
                }
            }
        }
    }
    ctx.count("configuration_cells", cell as u64);
    c13_many_patterns(tier, ctx)?;
    Ok(true)
}

/// Pattern lists whose size sits on a 15/16-bit boundary: N distinct two-byte
/// patterns (three-byte ones beyond 65536), so that the automaton has exactly
/// N match states. The number of patterns / match states is not allowed to
/// influence any accept/reject decision, and accepted searches must agree
/// with the model. Each (N, kind, start kind) is built once and then asked
/// every method with both anchorings.
fn c13_many_patterns(tier: Tier, total: &mut Ctx) -> Result<(), Violation> {
    let ns: &[usize] = match tier {
        Tier::Quick => &[32767, 32768, 65534, 65535, 65536, 65537],
        Tier::Thorough => &[32766, 32767, 32768, 32769, 65533, 65534, 65535, 65536, 65537, 65538],
    };
    let mks: &[Mk] = match tier {
        Tier::Quick => &[Mk::Standard],
        Tier::Thorough => &[Mk::Standard, Mk::LeftmostFirst],
    };
    let mut tasks: Vec<(usize, Cfg)> = Vec::new();
    for &n in ns {
        for &mk in mks {
            for sk in Sk::ALL {
                for engine in [Engine::TopNc, Engine::TopC, Engine::TopDfa] {
                    tasks.push((n, Cfg { engine, mk, sk, prefilter: true, dense_depth: 2, byte_classes: true, casei: false }));
                }
            }
        }
    }
    let next = std::sync::atomic::AtomicUsize::new(0);
    let results: Vec<(Ctx, Option<Violation>)> = std::thread::scope(|sc| {
        let hs: Vec<_> = (0..8)
            .map(|_| {
                sc.spawn(|| {
                    let mut ctx = Ctx::default();
                    loop {
                        let t = next.fetch_add(1, std::sync::atomic::Ordering::Relaxed);
                        if t >= tasks.len() {
                            return (ctx, None);
                        }
                        let (n, cfg) = &tasks[t];
                        let patterns = many_patterns_list(*n);
                        let mk_case = |hay: &[u8], anchored: bool, method: usize| Case {
                            prop: "C13".into(),
                            sub: "many-patterns".into(),
                            cfg: cfg.clone(),
                            // the list is rebuilt from `params` on replay (too large to store)
                            patterns: vec![],
                            haystack: hay.to_vec(),
                            span: (0, hay.len()),
                            anchored,
                            params: vec![method as i64, 0, *n as i64],
                            note: format!("pattern list: {} distinct patterns (i -> [i>>8, i&255] for i < 65536, then [0x41, 0x42, i-65536])", n),
                            ..Case::default()
                        };
                        let s = match Searcher::build(cfg, &patterns) {
                            Ok(s) => s,
                            Err(e) => return (ctx, Some(Violation { case: mk_case(b"", false, 0), reason: format!("build of {} two-byte patterns failed: {}", n, e) })),
                        };
                        let ac = match &s {
                            Searcher::Top(a) => a,
                            _ => unreachable!(),
                        };
                        let hay: &[u8] = b"AB\x00zz\x7f\xff\xff\x80\x00AB";
                        let hay_str = "AB\u{0}zz\u{7f}AB";
                        for method in 0..METHODS.len() {
                            for anchored in [false, true] {
                                let h: &[u8] = if matches!(method, 5 | 7 | 14 | 16) { hay_str.as_bytes() } else { hay };
                                let expect_reject = predicate_rejects(cfg, method, anchored, false);
                                let got = invoke(ac, method, h, hay_str, anchored, *n, (0, h.len()), None, None);
                                let want = if !expect_reject {
                                    Outcome::Accepted
                                } else if method >= 10 {
                                    Outcome::RejectedErr
                                } else {
                                    Outcome::RejectedPanic
                                };
                                if got != want {
                                    return (
                                        ctx,
                                        Some(Violation {
                                            case: mk_case(h, anchored, method),
                                            reason: format!(
                                                "{} on {} patterns (match kind {:?}, start kind {:?}, engine {:?}, anchored={}): expected {:?}, got {:?}",
                                                METHODS[method], n, cfg.mk, cfg.sk, cfg.engine, anchored, want, got
                                            ),
                                        }),
                                    );
                                }
                                ctx.begin();
                                ctx.nontrivial();
                                ctx.end(&mk_case(h, anchored, method));
                                ctx.enumerated += 1;
                            }
                        }
                        // accepted searches agree with the model (pattern ids above 32767 / 65535)
                        let occ = Occ::new(&patterns, hay, false);
                        for anchored in [false, true] {
                            if !cfg.sk.covers(anchored) {
                                continue;
                            }
                            let want = occ.iter(cfg.mk, 0, hay.len(), anchored);
                            let got = guard(|| s.try_find_iter(input(hay, (0, hay.len()), anchored, false)));
                            let ok = matches!(&got, Ok(Ok(g)) if *g == want);
                            if !ok {
                                return (ctx, Some(Violation { case: mk_case(hay, anchored, 12), reason: format!("find_iter on {} patterns differs from the model: expected {:?}, got {:?}", n, want, got.map(|r| r.map_err(|e| e.to_string()))) }));
                            }
                            if cfg.mk == Mk::Standard {
                                let want = occ.overlapping(0, hay.len(), anchored);
                                let got = guard(|| s.overlapping_steps(input(hay, (0, hay.len()), anchored, false), 2, 1000));
                                let ok = matches!(&got, Ok(Ok(g)) if *g == want);
                                if !ok {
                                    return (ctx, Some(Violation { case: mk_case(hay, anchored, 11), reason: format!("overlapping steps on {} patterns differ from the model: expected {:?}, got {:?}", n, want, got.map(|r| r.map_err(|e| e.to_string()))) }));
                                }
                            }
                        }
                        ctx.class("scenario:many-patterns(15/16-bit boundaries)");
                    }
                })
            })
            .collect();
        hs.into_iter().map(|h| h.join().expect("many-patterns thread")).collect()
    });
    let mut violation = None;
    for (c, v) in results {
        total.merge(c);
        if violation.is_none() {
            violation = v;
        }
    }
    match violation {
        Some(v) => Err(v),
        None => Ok(()),
    }
}

pub const C13: PropDef = PropDef {
    id: "C13",
    rule: "enumerated completely on every run: match kind (3) x start kind (3) x requested anchoring (2) x automaton kind (auto, noncontiguous, contiguous, DFA) x the 21 public search methods of AhoCorasick (10 infallible, 11 try_) x pattern-list shape (no patterns / no empty pattern / with empty pattern) = 4536 cells, \
each with generated pattern lists, haystacks and spans (full, restricted, the exhausted span start=end+1) of that shape, and for the stepwise overlapping methods with a fresh OverlappingState or one that already served an accepted request of the same searcher with either anchoring; stream methods additionally get a single 65536-byte pattern (the outcome must not depend on any of them); plus a random tier over the same space with more varied inputs and builder options. \
Oracle: rejected iff (a) anchoring not covered by the start kind (replace/stream methods count as unanchored), (b) overlapping or stream search on a non-standard searcher, (c) anchored overlapping iterator, (d) stream search with an empty pattern; \
fallible => Err value, infallible => panic, accepted => Ok and draining a constructed iterator (or repeating try_find_overlapping after a successful first call) never fails. Outcomes are classified with catch_unwind. \
Every evaluation is non-trivial (each is a distinct (cell, input) pair); exhaustive over cells, sampled over inputs. Distinct = distinct case fingerprint.",
    assumptions: &["the replacement table has exactly patterns_len entries and str APIs get valid UTF-8 (other misuse panics are outside the property)"],
    cases_quick: 300_000,
    cases_thorough: 3_000_000,
    strategy: c13_strategy,
    check: c13_check,
    extra: Some(c13_extra),
    floors: &[("rejected", 5_000), ("accepted", 5_000), ("shape:no-patterns", 1_000), ("method:is_match", 500), ("method:try_find_overlapping", 500)],
};

// ------------------------------------------------------------------ C19

struct BudgetGuard;
impl BudgetGuard {
    fn arm(budget: u64) -> BudgetGuard {
        verif::reset();
        verif::set_step_budget(Some(budget));
        engine::BUDGET_ARMED.with(|b| b.set(true));
        BudgetGuard
    }
}
impl Drop for BudgetGuard {
    fn drop(&mut self) {
        verif::set_step_budget(None);
        engine::BUDGET_ARMED.with(|b| b.set(false));
    }
}

fn is_dfa_engine(s: &Searcher, cfg: &Cfg) -> bool {
    match s {
        Searcher::D(_) => true,
        Searcher::Top(a) => a.kind() == AhoCorasickKind::DFA && cfg.engine != Engine::TopNc && cfg.engine != Engine::TopC,
        _ => false,
    }
}

fn check_counters(what: &str, span_len: usize, dfa: bool, max_fail_seen: &mut u64) -> Result<(), String> {
    let c = verif::counters();
    if c.transitions > span_len as u64 {
        return Err(format!("{}: {} transitions for a span of {} bytes", what, c.transitions, span_len));
    }
    if c.non_monotonic > 0 {
        return Err(format!("{}: the search position did not strictly increase ({} times)", what, c.non_monotonic));
    }
    if c.fail_links > c.transitions {
        return Err(format!("{}: {} failure-link traversals exceed {} transitions", what, c.fail_links, c.transitions));
    }
    if dfa && c.fail_links > 0 {
        return Err(format!("{}: a DFA followed {} failure links", what, c.fail_links));
    }
    // Prefilter work (lower-bound estimate from the hook): every skip moves
    // the position forward by the scanned distance, there is at most one
    // invocation per return to the start state plus one up front, and at
    // most one invocation that finds nothing: <= 3*span + 3.
    if c.prefilter_scanned > 3 * span_len as u64 + 3 {
        return Err(format!(
            "{}: prefilter invocations scanned at least {} bytes in {} calls for a span of {} bytes (re-scanning)",
            what, c.prefilter_scanned, c.prefilter_calls, span_len
        ));
    }
    // A rare-byte prefilter backs up from the byte it found by at most the
    // largest recorded offset (<= 255): it never scans further ahead of the
    // candidate it returns, and it never scans behind the span it was given.
    if c.prefilter_max_excess > 255 {
        return Err(format!(
            "{}: a prefilter invocation scanned {} bytes beyond the candidate it returned (re-scanning up to that distance at every start-state byte)",
            what, c.prefilter_max_excess
        ));
    }
    if c.prefilter_calls > span_len as u64 + 2 {
        return Err(format!("{}: {} prefilter invocations for a span of {} bytes", what, c.prefilter_calls, span_len));
    }
    *max_fail_seen = (*max_fail_seen).max(c.fail_links);
    HOOK_SEEN.with(|h| {
        let (t, f, p) = h.get();
        h.set((t || c.transitions > 0, f || c.fail_links > 0, p || c.prefilter_calls > 0));
    });
    Ok(())
}

thread_local! {
    /// whether the instrumentation reported anything during the current case
    /// (coverage classes only: a refactor that drops a hook call site must be
    /// noticed as a coverage warning, it is not a violation)
    static HOOK_SEEN: std::cell::Cell<(bool, bool, bool)> = std::cell::Cell::new((false, false, false));
}

fn budget_msg(p: String, what: &str) -> String {
    if p.contains(verif::BUDGET_PANIC_MESSAGE) {
        format!("{}: step budget of 3*span+16 (transitions + failure links + prefilter calls) exceeded (non-terminating or super-linear search)", what)
    } else {
        format!("{}: panicked: {}", what, p)
    }
}

fn c19_check(case: &Case, ctx: &mut Ctx) -> Result<(), String> {
    let cfg = &case.cfg;
    if !cfg.supports_anchored(case.anchored) {
        return Err("unsound C19 case".into());
    }
    let s = Searcher::build(cfg, &case.patterns)?;
    let dfa = is_dfa_engine(&s, cfg);
    let hay = &case.haystack[..];
    let (s0, e0) = case.span;
    let span_len = e0.saturating_sub(s0);
    let budget = 3 * span_len as u64 + 16;
    let mut max_fail = 0u64;
    // single searches, normal and earliest
    for earliest in [false, true] {
        let what = if earliest { "try_find(earliest)" } else { "try_find" };
        let _g = BudgetGuard::arm(budget);
        let r = guard(|| s.try_find(input(hay, case.span, case.anchored, earliest)));
        r.map_err(|p| budget_msg(p, what))?.map_err(|e| format!("{}: Err({})", what, e))?;
        check_counters(what, span_len, dfa, &mut max_fail)?;
    }
    // caller-driven iteration: every internal search is a single call that
    // starts at the end of the previous match
    {
        let mut start = s0;
        let mut guard_n = 0;
        let mut last_end: Option<usize> = None;
        while start <= e0 && guard_n <= span_len + 2 {
            guard_n += 1;
            let call_len = e0 - start;
            let _g = BudgetGuard::arm(3 * call_len as u64 + 16);
            let r = guard(|| s.try_find(input(hay, (start, e0), case.anchored, false)));
            let m = r.map_err(|p| budget_msg(p, "iterated try_find"))?.map_err(|e| format!("iterated try_find: Err({})", e))?;
            check_counters("iterated try_find", call_len, dfa, &mut max_fail)?;
            match m {
                None => break,
                Some(m) => {
                    if m.is_empty() && Some(m.end) == last_end {
                        start += 1;
                    } else {
                        start = m.end;
                        last_end = Some(m.end);
                    }
                }
            }
        }
    }
    // whole overlapping drain on one state (standard kind): the position only
    // moves forward, so the sum over all calls is bounded by the span
    if cfg.mk == Mk::Standard {
        let occ = Occ::new(&case.patterns, hay, cfg.casei);
        let n = occ.overlapping(s0, e0, case.anchored).len();
        let _g = BudgetGuard::arm(budget);
        let r = guard(|| s.overlapping_steps_limited(input(hay, case.span, case.anchored, false), n + 8));
        let drained = r.map_err(|p| budget_msg(p, "overlapping drain"))?.map_err(|e| format!("overlapping drain: Err({})", e))?;
        if drained.len() > n {
            return Err(format!(
                "overlapping drain: {} matches reported where only {} occurrences exist - the stepping search keeps reporting without advancing through the span",
                drained.len(),
                n
            ));
        }
        check_counters("overlapping drain", span_len, dfa, &mut max_fail)?;
        // stream search (unanchored, non-empty patterns)
        if !case.anchored && cfg.supports_anchored(false) && !case.patterns.is_empty() && case.patterns.iter().all(|p| !p.is_empty()) {
            let _g = BudgetGuard::arm(3 * hay.len() as u64 + 16);
            let r = guard(|| s.stream_find(hay));
            r.map_err(|p| budget_msg(p, "stream search"))?.map_err(|e| format!("stream search: Err({})", e))?;
            check_counters("stream search", hay.len(), dfa, &mut max_fail)?;
        }
    }
    ctx.class(sem::engine_class(cfg.engine));
    ctx.class(sem::mk_class(cfg.mk));
    ctx.class(&format!("gen:{}", case.sub));
    if case.anchored {
        ctx.class("anchored");
    }
    if dfa {
        ctx.class("dfa");
    }
    if cfg.prefilter {
        ctx.class("prefilter:on");
    }
    ctx.count("max_fail_links_sum", max_fail);
    let (t, f, p) = HOOK_SEEN.with(|h| h.replace((false, false, false)));
    if t {
        ctx.class("hook:transitions-counted");
    }
    if f {
        ctx.class("hook:fail-links-counted");
    }
    if p {
        ctx.class("hook:prefilter-calls-counted");
    }
    if span_len >= 8 && max_fail as usize >= span_len / 4 {
        ctx.class("failure-chain-exercised");
        ctx.nontrivial();
    }
    Ok(())
}

fn c19_strategy(_tier: Tier) -> BoxedStrategy<Case> {
    let base = gen::search_case(SearchOpts {
        prop: "C19",
        cfg: CfgOpts { anchored: 1, casei: 1, ..CfgOpts::default() },
        pats: PatOpts { w_empty: 3, max_class: 1, long: true, w_shapes: 8, w_adversarial: 14, w_fanout: 0 },
        hay: HayOpts { size_class: 2 },
        full_span_only: false,
        alphabets: vec![(50, gen::ALPHA_AB), (20, gen::ALPHA_ABCX), (15, gen::ALPHA_CASE), (10, gen::ALPHA_TEXT), (5, gen::ALPHA_FULL)],
        no_empty: false,
    });
    // haystacks designed to ride long failure chains
    (base, 0u8..6, prop_oneof![4 => 1usize..=400, 1 => 401usize..=1500], any::<u16>(), gen::span_recipe(false))
        .prop_map(|(mut case, mode, n, sel, sr)| {
            if mode >= 2 && !case.patterns.is_empty() {
                let np = case.patterns.len();
                let longest = case.patterns.iter().max_by_key(|p| p.len()).unwrap().clone();
                let pick = case.patterns[(sel as usize * np) >> 16].clone();
                let mut h = Vec::new();
                match mode {
                    // a^n : the first byte of the longest pattern repeated
                    2 => h = vec![*longest.first().unwrap_or(&b'a'); n],
                    // near-miss repeats: longest pattern minus its last byte
                    3 => {
                        let body = &longest[..longest.len().saturating_sub(1)];
                        while h.len() < n && !body.is_empty() {
                            h.extend_from_slice(body);
                        }
                    }
                    // the longest pattern's body, then a byte that breaks it
                    4 => {
                        let body = &longest[..longest.len().saturating_sub(1)];
                        while h.len() < n {
                            h.extend_from_slice(body);
                            h.push(pick.first().copied().unwrap_or(b'z'));
                        }
                    }
                    _ => {
                        while h.len() < n && !pick.is_empty() {
                            h.extend_from_slice(&pick[..pick.len() - 1]);
                            h.extend_from_slice(&longest);
                        }
                    }
                }
                h.truncate(n.max(1));
                case.haystack = h;
                case.span = gen::realize_span(sr, case.haystack.len());
                if case.span.0 > case.span.1 {
                    case.span = (0, case.haystack.len());
                }
                case.sub = format!("{}+chain-haystack", case.sub);
            }
            case
        })
        .boxed()
}

pub const C19: PropDef = PropDef {
    id: "C19",
    rule: "hooked build (cfg(aho_corasick_verif) counters at the next_state call sites of the three search loops and in the failure-link loops of both NFAs): adversarial pattern families (a^k b sets, all suffixes/prefixes of a^k b, Fibonacci words, periodic words, case-insensitive tries, prefilter-shaped sets) x \
haystacks designed to ride long failure chains (a^n, near-miss repeats of the longest pattern, pattern bodies broken by one byte) x all engines x match kinds x anchoring x prefilter on/off x spans. \
Oracle per search call (try_find normal and earliest; every call of a caller-driven iteration; the whole overlapping drain on one state up to the first call that reports nothing; the whole stream search): transitions <= span length, positions strictly increase, NFA failure-link traversals <= transitions, DFA failure links == 0, \
prefilter invocations <= span+2, their scanned bytes (hook lower bound) <= 3*span+3 (no re-scanning), no invocation scans more than 255 bytes beyond the candidate it returns (hit position of the rare-byte/memmem primitives), and a step budget of 3*span+16 (transitions + failure links + prefilter invocations) never trips (the hook panics with a fixed message, so a non-terminating search is a deterministic finding, not a time-out). \
Non-trivial = span >= 8 and some measured call followed >= span/4 failure links (the chain was exercised). Distinct = distinct case fingerprint.",
    assumptions: &["the counters are only as complete as the hook call sites: next_state calls in try_find_fwd_imp, try_find_overlapping_fwd_imp, StreamChunkIter::next; fail-link loops of noncontiguous and contiguous next_state", "prefilter work is measured at the Prefilter::find_in wrapper as a lower bound (candidate - span.start + 1, or the span length when nothing is found); work inside memchr/Teddy itself is not instrumented"],
    cases_quick: 800_000,
    cases_thorough: 8_000_000,
    strategy: c19_strategy,
    check: c19_check,
    extra: None,
    floors: &[
        ("failure-chain-exercised", 15_000),
        ("dfa", 20_000),
        ("anchored", 20_000),
        ("gen:adversarial+chain-haystack", 30_000),
        ("hook:transitions-counted", 100_000),
        ("hook:fail-links-counted", 50_000),
        ("hook:prefilter-calls-counted", 50_000),
    ],
};

// ------------------------------------------------------------------ C20

fn low_pattern_lens<A: Automaton>(a: &A) -> Vec<usize> {
    (0..a.patterns_len()).map(|i| a.pattern_len(PatternID::new(i).unwrap())).collect()
}

fn c20_check(case: &Case, ctx: &mut Ctx) -> Result<(), String> {
    if case.sub.starts_with("scenario:") {
        // replay of the scenario stand-in
        let mut c = Ctx::default();
        return c20_extra(Tier::Quick, 0, &mut c).map(|_| ()).map_err(|v| v.reason);
    }
    let cfg = &case.cfg;
    let pats = &case.patterns;
    let s = Searcher::build(cfg, pats)?; // Err or panic => violation
    let n = pats.len();
    let lens: Vec<usize> = pats.iter().map(|p| p.len()).collect();
    if s.patterns_len() != n {
        return Err(format!("patterns_len {} != {}", s.patterns_len(), n));
    }
    if n > 0 {
        let (mn, mx) = (*lens.iter().min().unwrap(), *lens.iter().max().unwrap());
        if s.min_pattern_len() != mn || s.max_pattern_len() != mx {
            return Err(format!("min/max pattern len ({}, {}) != ({}, {})", s.min_pattern_len(), s.max_pattern_len(), mn, mx));
        }
    }
    match &s {
        Searcher::Top(a) => {
            let want_kind = match cfg.engine {
                Engine::TopNc => Some(AhoCorasickKind::NoncontiguousNFA),
                Engine::TopC => Some(AhoCorasickKind::ContiguousNFA),
                Engine::TopDfa => Some(AhoCorasickKind::DFA),
                _ => None,
            };
            if let Some(k) = want_kind {
                if a.kind() != k {
                    return Err(format!("requested kind {:?} but kind() is {:?}", k, a.kind()));
                }
            }
            if a.match_kind() != engine::mk(cfg.mk) {
                return Err(format!("match_kind() {:?} != {:?}", a.match_kind(), cfg.mk));
            }
            if a.start_kind() != engine::sk(cfg.sk) {
                return Err(format!("start_kind() {:?} != {:?}", a.start_kind(), cfg.sk));
            }
            ctx.class(&format!("kind-returned:{:?}", a.kind()));
        }
        Searcher::Nc(a) => {
            if low_pattern_lens(a) != lens || a.match_kind() != engine::mk(cfg.mk) {
                return Err("noncontiguous: pattern_len / match_kind metadata differs from the input".into());
            }
        }
        Searcher::C(a) => {
            if low_pattern_lens(a) != lens || a.match_kind() != engine::mk(cfg.mk) {
                return Err("contiguous: pattern_len / match_kind metadata differs from the input".into());
            }
        }
        Searcher::D(a) => {
            if low_pattern_lens(a) != lens || a.match_kind() != engine::mk(cfg.mk) {
                return Err("dfa: pattern_len / match_kind metadata differs from the input".into());
            }
        }
    }
    // the low-level types built from the same patterns report each length
    if cfg.engine.is_top() && n <= 600 {
        let nc = guard(|| engine::build_nc(cfg, pats)).map_err(|p| format!("noncontiguous build panicked: {}", p))??;
        if low_pattern_lens(&nc) != lens {
            return Err("noncontiguous pattern_len differs from the input lengths".into());
        }
        let c = guard(|| engine::build_c(cfg, pats)).map_err(|p| format!("contiguous build panicked: {}", p))??;
        if low_pattern_lens(&c) != lens {
            return Err("contiguous pattern_len differs from the input lengths".into());
        }
        if lens.iter().sum::<usize>() <= 20_000 {
            let d = guard(|| engine::build_d(cfg, pats)).map_err(|p| format!("dfa build panicked: {}", p))??;
            if low_pattern_lens(&d) != lens {
                return Err("dfa pattern_len differs from the input lengths".into());
            }
        }
    }
    // pattern ids in results are input positions: one model-checked search
    let anchored = !cfg.supports_anchored(false);
    let hay = &case.haystack[..];
    if hay.len() * lens.iter().sum::<usize>() <= 4_000_000 || case.sub.starts_with("boundary:") {
        let occ = Occ::new(pats, hay, cfg.casei);
        // standard kind: the overlapping sequence as well (it walks whole match lists)
        if cfg.mk == Mk::Standard {
            let want = occ.overlapping(0, hay.len(), anchored);
            let got = guard(|| s.overlapping_steps(input(hay, (0, hay.len()), anchored, false), 1, 10_000)).map_err(|p| format!("overlapping steps panicked: {}", p))?.map_err(|e| format!("overlapping steps: Err({})", e))?;
            if got != want {
                let k = got.iter().zip(want.iter()).take_while(|(a, b)| a == b).count();
                return Err(format!("overlapping steps after build differ from the model at index {}: expected {:?}, got {:?}", k, want.get(k), got.get(k)));
            }
        }
        let want = occ.iter(cfg.mk, 0, hay.len(), anchored);
        let got = guard(|| s.try_find_iter(input(hay, (0, hay.len()), anchored, false))).map_err(|p| format!("find_iter panicked: {}", p))?.map_err(|e| format!("find_iter: Err({})", e))?;
        if got != want {
            let k = got.iter().zip(want.iter()).take_while(|(a, b)| a == b).count();
            return Err(format!("find_iter after build differs from the model at index {}: expected {:?}, got {:?}", k, want.get(k), got.get(k)));
        }
        if !want.is_empty() {
            ctx.class("search-with-matches");
        }
    }
    ctx.class(sem::engine_class(cfg.engine));
    ctx.class(&format!("gen:{}", case.sub));
    let mut stress = false;
    for (name, cond) in [
        ("shape:no-patterns", n == 0),
        ("shape:only-empty-patterns", n > 0 && lens.iter().all(|&l| l == 0)),
        ("shape:duplicates", {
            let mut v: Vec<&Vec<u8>> = pats.iter().take(2000).collect();
            v.sort();
            v.windows(2).any(|w| w[0] == w[1])
        }),
        ("shape:>100-patterns", n > 100),
        ("shape:>1000-patterns", n > 1000),
        ("shape:pattern>=256-bytes", lens.iter().any(|&l| l >= 256)),
        ("shape:all-256-byte-values", {
            let mut seen = [false; 256];
            for p in pats.iter() {
                for &b in p {
                    seen[b as usize] = true;
                }
            }
            seen.iter().all(|&x| x)
        }),
        ("shape:>127-children", case.sub.starts_with("fanout") && n > 127),
        ("shape:dense-depth-beyond-trie", cfg.dense_depth < 0 || cfg.dense_depth as usize > lens.iter().copied().max().unwrap_or(0)),
    ] {
        if cond {
            ctx.class(name);
            stress = true;
        }
    }
    if stress {
        ctx.nontrivial();
    }
    Ok(())
}

fn lcg_bytes(seed: &mut u64, n: usize, alpha: &[u8]) -> Vec<u8> {
    (0..n)
        .map(|_| {
            *seed = seed.wrapping_mul(6364136223846793005).wrapping_add(1442695040888963407);
            alpha[((*seed >> 33) as usize) % alpha.len()]
        })
        .collect()
}

fn c20_strategy(tier: Tier) -> BoxedStrategy<Case> {
    let general = gen::search_case(SearchOpts {
        prop: "C20",
        cfg: CfgOpts { casei: 1, anchored: 0, ..CfgOpts::default() },
        pats: PatOpts { w_empty: 8, max_class: 2, long: true, w_shapes: 2, w_adversarial: 1, w_fanout: 3 },
        hay: HayOpts { size_class: 1 },
        full_span_only: true,
        alphabets: gen::default_alphabets(),
        no_empty: false,
    });
    // special shapes derived from a generated seed (pure functions of it)
    let max_big = if tier == Tier::Thorough { 5000usize } else { 2500 };
    let special = (general.clone(), 0u8..7, any::<u64>(), 2usize..=max_big, 1usize..=40).prop_map(|(mut case, shape, seed, n, len)| {
        let mut sd = seed | 1;
        let full: Vec<u8> = (0..=255u8).collect();
        match shape {
            0 => {
                case.patterns.clear();
                case.sub = "special:none".into();
            }
            1 => {
                case.patterns = vec![Vec::new(); 1 + n % 5];
                case.sub = "special:only-empties".into();
            }
            2 => {
                // all 256 byte values, one per pattern and one long pattern
                case.patterns = (0..=255u8).map(|b| vec![b, b.wrapping_add(1)]).collect();
                case.patterns.push(full.clone());
                case.sub = "special:all-bytes".into();
            }
            3 => {
                // many patterns x short; DFA engines keep total bytes small
                let dfaish = matches!(case.cfg.engine, Engine::TopDfa | Engine::LowDfa | Engine::TopAuto);
                let n = if dfaish { n.min(1500) } else { n };
                let len = if dfaish { len.min(12) } else { len };
                let alpha = if seed & 2 == 0 { b"abcdefgh".to_vec() } else { full.clone() };
                case.patterns = (0..n).map(|i| lcg_bytes(&mut sd, 1 + (i + len) % len.max(1), &alpha)).collect();
                // every fourth list also holds a few empty patterns: every
                // state then carries their matches (large match tables)
                if seed % 4 == 1 {
                    for k in 0..(1 + (seed >> 8) % 4) as usize {
                        let at = (k * 977) % (case.patterns.len() + 1);
                        case.patterns.insert(at, Vec::new());
                    }
                }
                case.sub = "special:many-patterns".into();
            }
            4 => {
                // 50 x 300 bytes
                let n = 2 + n % 49;
                let dfaish = matches!(case.cfg.engine, Engine::TopDfa | Engine::LowDfa | Engine::TopAuto);
                let l = if dfaish { 120 } else { 300 };
                case.patterns = (0..n).map(|_| { let k = l - (sd as usize % 40); lcg_bytes(&mut sd, k, b"abcde") }).collect();
                case.sub = "special:long-patterns".into();
            }
            5 => {
                // 101..=140 patterns: the automatic kind switch
                let n = 101 + n % 40;
                case.patterns = (0..n).map(|_| { let k = 1 + (sd as usize % 6); lcg_bytes(&mut sd, k, b"abcdefghijklmnop") }).collect();
                case.sub = "special:auto-switch".into();
            }
            _ => {
                // duplicates of everything
                let base = case.patterns.clone();
                case.patterns.extend(base);
                case.sub = "special:all-duplicated".into();
            }
        }
        // a haystack containing a few of the patterns
        let mut h = Vec::new();
        let np = case.patterns.len();
        for k in 0..4usize {
            if np > 0 {
                let p = &case.patterns[(k * 7919 + seed as usize % 1009) % np];
                h.extend_from_slice(&p[..p.len().min(60)]);
            }
            h.push(b'-');
        }
        case.haystack = h;
        case.span = (0, case.haystack.len());
        case
    });
    Union::new_weighted(vec![(7, general), (3, special.boxed())]).boxed()
}

/// Deterministic scenario: a collection whose DFA would exceed the state-id
/// space (about 4.4 million trie states with start kind Both and byte classes
/// off). Building with an explicitly requested DFA must either report a
/// build error or return a DFA - never silently hand back another kind.
fn c20_extra(_tier: Tier, _seed: u64, ctx: &mut Ctx) -> Result<bool, Violation> {
    // Boundary sizes through the ordinary check (metadata + model-checked
    // iteration): one pattern of exactly 65535 / 65536 / 65537 bytes next to
    // a short one, and a list of 65538 patterns whose late three-byte
    // patterns have early two-byte patterns as suffixes.
    {
        let mut tasks: Vec<Case> = Vec::new();
        for l in [65_535usize, 65_536, 65_537] {
            let long: Vec<u8> = (0..l as u32).map(|i| b'a' + ((i.wrapping_mul(2654435761) >> 11) % 23) as u8).collect();
            let mut hay = b"..".to_vec();
            hay.extend_from_slice(&long);
            hay.extend_from_slice(b"zq");
            for engine in [Engine::TopNc, Engine::TopC, Engine::TopDfa, Engine::LowDfa, Engine::LowC] {
                tasks.push(Case {
                    prop: "C20".into(),
                    sub: format!("boundary:pattern-of-{}-bytes", l),
                    cfg: Cfg { engine, mk: Mk::LeftmostFirst, sk: Sk::Unanchored, prefilter: true, dense_depth: 2, byte_classes: true, casei: false },
                    patterns: vec![long.clone(), b"zq".to_vec()],
                    span: (0, hay.len()),
                    haystack: hay.clone(),
                    ..Case::default()
                });
            }
        }
        for engine in [Engine::TopC, Engine::TopDfa, Engine::TopNc] {
            for mk in [Mk::Standard, Mk::LeftmostLongest] {
                let hay = b"AB\x00zzAB\x01\xff\xfeAB".to_vec();
                tasks.push(Case {
                    prop: "C20".into(),
                    sub: "boundary:65538-patterns".into(),
                    cfg: Cfg { engine, mk, sk: Sk::Unanchored, prefilter: true, dense_depth: 2, byte_classes: true, casei: false },
                    patterns: many_patterns_list(65_538),
                    span: (0, hay.len()),
                    haystack: hay,
                    ..Case::default()
                });
            }
        }
        let next = std::sync::atomic::AtomicUsize::new(0);
        let results: Vec<Option<Violation>> = std::thread::scope(|sc| {
            let hs: Vec<_> = (0..8)
                .map(|_| {
                    sc.spawn(|| loop {
                        let t = next.fetch_add(1, std::sync::atomic::Ordering::Relaxed);
                        if t >= tasks.len() {
                            return None;
                        }
                        // checked with a scratch context: these cases are too large to keep as evidence samples
                        let mut scratch = Ctx::default();
                        let r = guard(|| c20_check(&tasks[t], &mut scratch));
                        let r = match r {
                            Ok(r) => r,
                            Err(p) => Err(format!("panicked: {}", p)),
                        };
                        if let Err(reason) = r {
                            return Some(Violation { case: tasks[t].clone(), reason });
                        }
                    })
                })
                .collect();
            hs.into_iter().map(|h| h.join().expect("boundary thread")).collect()
        });
        for v in results.into_iter().flatten() {
            return Err(v);
        }
        ctx.evals += tasks.len() as u64;
        ctx.enumerated += tasks.len() as u64;
        ctx.count("boundary_size_cases", tasks.len() as u64);
        ctx.class("boundary:pattern-of-65535/65536/65537-bytes");
        ctx.class("boundary:65538-patterns");
    }
    let mut sd = 0x9e3779b97f4a7c15u64;
    let full: Vec<u8> = (0..=255u8).collect();
    let patterns: Vec<Vec<u8>> = (0..2200).map(|_| lcg_bytes(&mut sd, 2000, &full)).collect();
    let stand_in = Case { prop: "C20".into(), sub: "scenario:dfa-state-id-overflow (2200 x 2000 random bytes)".into(), cfg: Cfg { engine: Engine::TopDfa, mk: Mk::Standard, sk: Sk::Both, prefilter: true, dense_depth: 2, byte_classes: false, casei: false }, ..Case::default() };
    ctx.begin();
    let r = guard(|| {
        let _s = engine::SuspendBudget::new();
        engine::top_builder(&stand_in.cfg).build(&patterns).map(|ac| (ac.kind(), ac.patterns_len()))
    });
    let out = match r {
        Err(p) => Err(format!("building a collection beyond the DFA size limit panicked instead of reporting a BuildError: {}", p)),
        Ok(Err(_build_error)) => {
            ctx.class("scenario:dfa-overflow-reported-as-error");
            Ok(())
        }
        Ok(Ok((kind, n))) => {
            if kind != AhoCorasickKind::DFA {
                Err(format!("kind(Some(DFA)) was requested but the build returned Ok with kind() = {:?}", kind))
            } else if n != patterns.len() {
                Err(format!("patterns_len {} != {}", n, patterns.len()))
            } else {
                ctx.class("scenario:dfa-built");
                Ok(())
            }
        }
    };
    ctx.nontrivial();
    ctx.end(&stand_in);
    ctx.enumerated += 1;
    out.map_err(|reason| Violation { case: stand_in.clone(), reason })?;

    // Same size class through the AUTOMATIC kind: at most 100 patterns (and a
    // start kind other than Both) make the builder try a DFA first; 8.64
    // million trie states x 256 classes exceed the DFA's state-id space; when the DFA cannot be built the documented
    // fallback chain must hand back a working searcher, not the DFA's error.
    {
        let mut sd = 0x2545f4914f6cdd1du64;
        let patterns: Vec<Vec<u8>> = (0..96).map(|_| lcg_bytes(&mut sd, 90_000, &full)).collect();
        let cfg = Cfg { engine: Engine::TopAuto, mk: Mk::LeftmostFirst, sk: Sk::Unanchored, prefilter: true, dense_depth: 2, byte_classes: false, casei: false };
        let stand_in = Case { prop: "C20".into(), sub: "scenario:auto-kind-beyond-dfa-limit (96 x 90000 random bytes)".into(), cfg: cfg.clone(), ..Case::default() };
        ctx.begin();
        let r = Searcher::build(&cfg, &patterns);
        ctx.nontrivial();
        ctx.end(&stand_in);
        ctx.enumerated += 1;
        match r {
            Err(e) => return Err(Violation { case: stand_in, reason: format!("a legal collection (96 patterns x 90000 bytes, automatic kind) failed to build: {}", e) }),
            Ok(s) => {
                if s.patterns_len() != 96 || s.max_pattern_len() != 90_000 || s.min_pattern_len() != 90_000 {
                    return Err(Violation { case: stand_in, reason: "metadata of the 96 x 90000 collection is wrong".into() });
                }
                let mut h = b"..".to_vec();
                h.extend_from_slice(&patterns[5]);
                let got = guard(|| s.try_find(input(&h, (0, h.len()), false, false)));
                let want = Some(M { pat: 5, start: 2, end: 90_002 });
                if !matches!(&got, Ok(Ok(g)) if *g == want) {
                    return Err(Violation { case: stand_in, reason: format!("96 x 90000 collection: expected {:?}, got {:?}", want, got.map(|r| r.map_err(|e| e.to_string()))) });
                }
                ctx.class("scenario:auto-kind-fallback-built");
            }
        }
    }

    // Second scenario: a legal collection whose contiguous encoding is large
    // (300 x 230 random bytes, every state dense, byte classes off: about
    // 18 million 32-bit words). Explicitly requested kinds must build.
    let mut sd = 0x51_7c_c1_b7_27_22_0a_95u64;
    let patterns: Vec<Vec<u8>> = (0..300).map(|_| lcg_bytes(&mut sd, 230, &full)).collect();
    for engine in [Engine::TopC, Engine::LowC, Engine::TopNc] {
        let cfg = Cfg { engine, mk: Mk::LeftmostFirst, sk: Sk::Unanchored, prefilter: true, dense_depth: -1, byte_classes: false, casei: false };
        let stand_in = Case { prop: "C20".into(), sub: "scenario:large-dense-encoding (300 x 230 random bytes)".into(), cfg: cfg.clone(), ..Case::default() };
        ctx.begin();
        let r = Searcher::build(&cfg, &patterns);
        ctx.nontrivial();
        ctx.end(&stand_in);
        ctx.enumerated += 1;
        match r {
            Err(e) => return Err(Violation { case: stand_in, reason: format!("a legal collection (300 patterns x 230 bytes) failed to build with dense_depth(MAX), byte_classes(false): {}", e) }),
            Ok(s) => {
                if s.patterns_len() != 300 || s.max_pattern_len() != 230 {
                    return Err(Violation { case: stand_in, reason: "metadata of the large dense collection is wrong".into() });
                }
                // pattern 7 occurs in a haystack: found with the right id
                let mut h = b"....".to_vec();
                h.extend_from_slice(&patterns[7]);
                let got = guard(|| s.try_find(input(&h, (0, h.len()), false, false)));
                let want = Some(M { pat: 7, start: 4, end: 234 });
                if !matches!(&got, Ok(Ok(g)) if *g == want) {
                    return Err(Violation { case: stand_in, reason: format!("large dense collection: expected {:?}, got {:?}", want, got.map(|r| r.map_err(|e| e.to_string()))) });
                }
                ctx.class("scenario:large-dense-encoding-built");
            }
        }
    }
    Ok(false)
}

pub const C20: PropDef = PropDef {
    id: "C20",
    rule: "shape-diverse pattern collections (none, only empty patterns, duplicates of everything, all 256 byte values, a trie node with up to 255 children, 101..140 patterns (automatic kind switch), up to 2500 (thorough 5000) patterns x up to 40 bytes, up to 50 patterns x 300 bytes, DFA engines with bounded total size) x every builder option combination (7 engines, 3 match kinds, 3 start kinds, prefilter, 6 dense depths, byte classes, case-insensitivity). \
One deterministic scenario beyond the DFA's state-id space (2200 x 2000 random bytes, start kind Both, byte classes off, kind(DFA)): the build must report an error or return a DFA, never another kind. Oracle: build returns Ok without panic; an explicitly requested kind is kind(); patterns_len, min/max_pattern_len (non-empty collections), match_kind, start_kind equal the inputs; Automaton::pattern_len(i) == |P[i]| on the three low-level types; the non-overlapping iterator on a haystack containing some patterns equals the model (pattern ids are input positions). \
Non-trivial = at least one stress shape is present (see classes shape:*). Distinct = distinct case fingerprint.",
    assumptions: &["documented size limits are not approached (state ids near i32::MAX are out of reach of memory)", "DFA builds are only requested while the estimated table stays below ~100 MB"],
    cases_quick: 60_000,
    cases_thorough: 1_000_000,
    strategy: c20_strategy,
    check: c20_check,
    extra: Some(c20_extra),
    floors: &[
        ("shape:no-patterns", 1_000),
        ("shape:only-empty-patterns", 1_000),
        ("shape:>100-patterns", 2_000),
        ("shape:>1000-patterns", 500),
        ("shape:pattern>=256-bytes", 500),
        ("shape:all-256-byte-values", 1_000),
        ("shape:>127-children", 500),
        ("kind-returned:DFA", 5_000),
        ("kind-returned:ContiguousNFA", 5_000),
    ],
};

#[allow(dead_code)]
fn _unused(_: Match, _: Op) {}
