//! Building searchers from a `Cfg` and a uniform calling surface over the
//! top-level `AhoCorasick` and the three low-level automaton types.

use std::panic::{catch_unwind, AssertUnwindSafe};

use aho_corasick::{
    automaton::{Automaton, OverlappingState},
    dfa, nfa, AhoCorasick, AhoCorasickBuilder, AhoCorasickKind, Anchored,
    Input, Match, MatchError, MatchKind, Span, StartKind,
};

use crate::case::{Cfg, Engine, Mk, Sk};
use crate::model::M;

thread_local! {
    static LAST_PANIC: std::cell::RefCell<String> = std::cell::RefCell::new(String::new());
}

/// Install a silent panic hook that remembers the message per thread.
pub fn install_panic_hook() {
    std::panic::set_hook(Box::new(|info| {
        let msg = if let Some(s) = info.payload().downcast_ref::<&str>() {
            s.to_string()
        } else if let Some(s) = info.payload().downcast_ref::<String>() {
            s.clone()
        } else {
            "<non-string panic>".to_string()
        };
        let loc = info
            .location()
            .map(|l| format!("{}:{}", l.file(), l.line()))
            .unwrap_or_default();
        if std::env::var_os("VERIF_PANIC_TRACE").is_some() {
            eprintln!("PANIC: {} at {}", msg, loc);
        }
        LAST_PANIC.with(|p| *p.borrow_mut() = format!("{} at {}", msg, loc));
    }));
}

thread_local! {
    /// true while a property (C19) manages the step budget itself
    pub static BUDGET_ARMED: std::cell::Cell<bool> = std::cell::Cell::new(false);
}

/// Default step budget per guarded library call: far above any legitimate
/// amount of work for the generated sizes (haystacks <= ~4 KiB, quadratic
/// iteration included), so that a search loop that never terminates becomes
/// a deterministic panic (a violation) instead of a watchdog time-out.
pub const DEFAULT_STEP_BUDGET: u64 = 200_000_000;

thread_local! {
    static GUARD_DEPTH: std::cell::Cell<u32> = std::cell::Cell::new(0);
}

/// Automaton construction legitimately follows very many failure links (the
/// DFA and contiguous builders call the noncontiguous `next_state`), so the
/// step budget - which exists to turn a runaway *search* into a panic - is
/// suspended while a searcher is being built.
pub struct SuspendBudget;

impl SuspendBudget {
    pub fn new() -> SuspendBudget {
        aho_corasick::verif::set_step_budget(None);
        SuspendBudget
    }
}

impl Drop for SuspendBudget {
    fn drop(&mut self) {
        let in_guard = GUARD_DEPTH.with(|d| d.get()) > 0;
        if in_guard && !BUDGET_ARMED.with(|b| b.get()) {
            aho_corasick::verif::set_step_budget(Some(DEFAULT_STEP_BUDGET));
        }
    }
}

/// Run a library call, turning a panic into Err(message).
pub fn guard<T>(f: impl FnOnce() -> T) -> Result<T, String> {
    let own_budget = !BUDGET_ARMED.with(|b| b.get());
    let outermost = GUARD_DEPTH.with(|d| {
        let v = d.get();
        d.set(v + 1);
        v == 0
    });
    if own_budget && outermost {
        aho_corasick::verif::set_step_budget(Some(DEFAULT_STEP_BUDGET));
    }
    let r = catch_unwind(AssertUnwindSafe(f));
    GUARD_DEPTH.with(|d| d.set(d.get() - 1));
    if own_budget && outermost {
        aho_corasick::verif::set_step_budget(None);
    }
    match r {
        Ok(v) => Ok(v),
        Err(_) => Err(LAST_PANIC.with(|p| p.borrow().clone())),
    }
}

pub fn mk(m: Mk) -> MatchKind {
    match m {
        Mk::Standard => MatchKind::Standard,
        Mk::LeftmostFirst => MatchKind::LeftmostFirst,
        Mk::LeftmostLongest => MatchKind::LeftmostLongest,
    }
}

pub fn sk(s: Sk) -> StartKind {
    match s {
        Sk::Unanchored => StartKind::Unanchored,
        Sk::Anchored => StartKind::Anchored,
        Sk::Both => StartKind::Both,
    }
}

pub fn anch(a: bool) -> Anchored {
    if a {
        Anchored::Yes
    } else {
        Anchored::No
    }
}

pub fn to_m(m: Match) -> M {
    M { pat: m.pattern().as_usize(), start: m.start(), end: m.end() }
}

pub fn input<'h>(
    hay: &'h [u8],
    span: (usize, usize),
    anchored: bool,
    earliest: bool,
) -> Input<'h> {
    Input::new(hay)
        .span(Span { start: span.0, end: span.1 })
        .anchored(anch(anchored))
        .earliest(earliest)
}

pub enum Searcher {
    Top(AhoCorasick),
    Nc(nfa::noncontiguous::NFA),
    C(nfa::contiguous::NFA),
    D(dfa::DFA),
}

pub fn top_builder(cfg: &Cfg) -> AhoCorasickBuilder {
    let mut b = AhoCorasickBuilder::new();
    b.match_kind(mk(cfg.mk))
        .start_kind(sk(cfg.sk))
        .prefilter(cfg.prefilter)
        .dense_depth(cfg.dense_depth_usize())
        .byte_classes(cfg.byte_classes)
        .ascii_case_insensitive(cfg.casei);
    b.kind(match cfg.engine {
        Engine::TopNc => Some(AhoCorasickKind::NoncontiguousNFA),
        Engine::TopC => Some(AhoCorasickKind::ContiguousNFA),
        Engine::TopDfa => Some(AhoCorasickKind::DFA),
        _ => None,
    });
    b
}

pub fn build_nc(
    cfg: &Cfg,
    pats: &[Vec<u8>],
) -> Result<nfa::noncontiguous::NFA, String> {
    let _suspend = SuspendBudget::new();
    nfa::noncontiguous::Builder::new()
        .match_kind(mk(cfg.mk))
        .prefilter(cfg.prefilter)
        .dense_depth(cfg.dense_depth_usize())
        .ascii_case_insensitive(cfg.casei)
        .build(pats)
        .map_err(|e| e.to_string())
}

pub fn build_c(
    cfg: &Cfg,
    pats: &[Vec<u8>],
) -> Result<nfa::contiguous::NFA, String> {
    let _suspend = SuspendBudget::new();
    nfa::contiguous::Builder::new()
        .match_kind(mk(cfg.mk))
        .prefilter(cfg.prefilter)
        .dense_depth(cfg.dense_depth_usize())
        .byte_classes(cfg.byte_classes)
        .ascii_case_insensitive(cfg.casei)
        .build(pats)
        .map_err(|e| e.to_string())
}

pub fn build_d(cfg: &Cfg, pats: &[Vec<u8>]) -> Result<dfa::DFA, String> {
    let _suspend = SuspendBudget::new();
    dfa::Builder::new()
        .match_kind(mk(cfg.mk))
        .prefilter(cfg.prefilter)
        .start_kind(sk(cfg.sk))
        .byte_classes(cfg.byte_classes)
        .ascii_case_insensitive(cfg.casei)
        .build(pats)
        .map_err(|e| e.to_string())
}

thread_local! {
    /// Alternates per call: the low-level automata are driven directly and,
    /// every other call, through the documented blanket `impl Automaton for
    /// &A` (as generic caller code that is handed `&nfa` would).
    static BY_REF: std::cell::Cell<bool> = std::cell::Cell::new(false);
}

pub fn by_ref_toggle() -> bool {
    BY_REF.with(|b| {
        let v = !b.get();
        b.set(v);
        v
    })
}

macro_rules! low {
    ($self:expr, $a:ident => $e:expr) => {
        if by_ref_toggle() {
            match $self {
                Searcher::Nc($a) => {
                    let $a = &$a;
                    $e
                }
                Searcher::C($a) => {
                    let $a = &$a;
                    $e
                }
                Searcher::D($a) => {
                    let $a = &$a;
                    $e
                }
                Searcher::Top(_) => unreachable!(),
            }
        } else {
            match $self {
                Searcher::Nc($a) => $e,
                Searcher::C($a) => $e,
                Searcher::D($a) => $e,
                Searcher::Top(_) => unreachable!(),
            }
        }
    };
}

impl Searcher {
    /// Build; a panic or an `Err` from the builder is reported as Err.
    pub fn build(cfg: &Cfg, pats: &[Vec<u8>]) -> Result<Searcher, String> {
        let r = guard(|| -> Result<Searcher, String> {
            let _suspend = SuspendBudget::new();
            Ok(match cfg.engine {
                Engine::LowNc => Searcher::Nc(build_nc(cfg, pats)?),
                Engine::LowC => Searcher::C(build_c(cfg, pats)?),
                Engine::LowDfa => Searcher::D(build_d(cfg, pats)?),
                _ => Searcher::Top(
                    top_builder(cfg).build(pats).map_err(|e| e.to_string())?,
                ),
            })
        });
        match r {
            Ok(Ok(s)) => Ok(s),
            Ok(Err(e)) => Err(format!("build returned Err: {}", e)),
            Err(p) => Err(format!("build panicked: {}", p)),
        }
    }

    pub fn try_find(&self, inp: Input<'_>) -> Result<Option<M>, MatchError> {
        let r = match self {
            Searcher::Top(a) => a.try_find(inp),
            _ => low!(self, a => a.try_find(&inp)),
        };
        r.map(|o| o.map(to_m))
    }

    /// Collects the non-overlapping iterator. A correct iterator yields at
    /// most span+1 matches; collection stops two items after that bound so
    /// that an iterator that never ends shows up as a sequence mismatch
    /// instead of exhausting memory.
    pub fn try_find_iter(&self, inp: Input<'_>) -> Result<Vec<M>, MatchError> {
        let cap = inp.haystack().len() + 3;
        Ok(match self {
            Searcher::Top(a) => a.try_find_iter(inp)?.take(cap).map(to_m).collect(),
            _ => low!(self, a => a.try_find_iter(inp)?.take(cap).map(to_m).collect()),
        })
    }

    pub fn try_find_overlapping_iter(
        &self,
        inp: Input<'_>,
    ) -> Result<Vec<M>, MatchError> {
        let cap = (inp.haystack().len() + 1) * (self.patterns_len() + 1) + 3;
        Ok(match self {
            Searcher::Top(a) => {
                a.try_find_overlapping_iter(inp)?.take(cap).map(to_m).collect()
            }
            _ => low!(self, a => a
                .try_find_overlapping_iter(inp)?
                .take(cap)
                .map(to_m)
                .collect()),
        })
    }

    pub fn try_find_overlapping(
        &self,
        inp: Input<'_>,
        state: &mut OverlappingState,
    ) -> Result<(), MatchError> {
        match self {
            Searcher::Top(a) => a.try_find_overlapping(inp, state),
            _ => low!(self, a => a.try_find_overlapping(&inp, state)),
        }
    }

    /// Step an overlapping search on one state until it reports no match,
    /// then `extra` more times (each must report no match; a late match is
    /// appended so that the caller's sequence comparison fails).
    pub fn overlapping_steps(
        &self,
        inp: Input<'_>,
        extra: usize,
        cap: usize,
    ) -> Result<Vec<M>, MatchError> {
        // never cut a legitimate drain short: at most one match per
        // (offset, pattern) pair exists
        let cap = cap.max((inp.haystack().len() + 1) * (self.patterns_len() + 1) + 3);
        let mut st = OverlappingState::start();
        let mut out = Vec::new();
        let mut quiet = 0;
        while quiet <= extra && out.len() <= cap {
            self.try_find_overlapping(inp.clone(), &mut st)?;
            match st.get_match() {
                Some(m) => out.push(to_m(m)),
                None => quiet += 1,
            }
        }
        Ok(out)
    }

    /// Like `overlapping_steps` but stops after exactly `limit` matches (used
    /// where the caller knows how many occurrences exist and wants to see an
    /// overrun).
    pub fn overlapping_steps_limited(
        &self,
        inp: Input<'_>,
        limit: usize,
    ) -> Result<Vec<M>, MatchError> {
        let mut st = OverlappingState::start();
        let mut out = Vec::new();
        while out.len() <= limit {
            self.try_find_overlapping(inp.clone(), &mut st)?;
            match st.get_match() {
                Some(m) => out.push(to_m(m)),
                None => break,
            }
        }
        Ok(out)
    }

    pub fn patterns_len(&self) -> usize {
        match self {
            Searcher::Top(a) => a.patterns_len(),
            _ => low!(self, a => a.patterns_len()),
        }
    }

    pub fn min_pattern_len(&self) -> usize {
        match self {
            Searcher::Top(a) => a.min_pattern_len(),
            _ => low!(self, a => a.min_pattern_len()),
        }
    }

    pub fn max_pattern_len(&self) -> usize {
        match self {
            Searcher::Top(a) => a.max_pattern_len(),
            _ => low!(self, a => a.max_pattern_len()),
        }
    }

    pub fn stream_find(
        &self,
        rdr: impl std::io::Read,
    ) -> Result<Vec<std::io::Result<M>>, MatchError> {
        Ok(match self {
            Searcher::Top(a) => a
                .try_stream_find_iter(rdr)?
                .take(1 << 20)
                .map(|r| r.map(to_m))
                .collect(),
            _ => low!(self, a => a
                .try_stream_find_iter(rdr)?
                .take(1 << 20)
                .map(|r| r.map(to_m))
                .collect()),
        })
    }

    pub fn stream_replace_all(
        &self,
        rdr: impl std::io::Read,
        wtr: impl std::io::Write,
        repl: &[Vec<u8>],
    ) -> std::io::Result<()> {
        match self {
            Searcher::Top(a) => a.try_stream_replace_all(rdr, wtr, repl),
            _ => low!(self, a => a.try_stream_replace_all(rdr, wtr, repl)),
        }
    }

    pub fn stream_replace_all_with<W: std::io::Write>(
        &self,
        rdr: impl std::io::Read,
        wtr: W,
        f: impl FnMut(&Match, &[u8], &mut W) -> std::io::Result<()>,
    ) -> std::io::Result<()> {
        match self {
            Searcher::Top(a) => a.try_stream_replace_all_with(rdr, wtr, f),
            _ => low!(self, a => a.try_stream_replace_all_with(rdr, wtr, f)),
        }
    }

    pub fn replace_all_bytes(
        &self,
        hay: &[u8],
        repl: &[Vec<u8>],
    ) -> Result<Vec<u8>, MatchError> {
        match self {
            Searcher::Top(a) => a.try_replace_all_bytes(hay, repl),
            _ => low!(self, a => a.try_replace_all_bytes(hay, repl)),
        }
    }

    pub fn replace_all_with_bytes(
        &self,
        hay: &[u8],
        dst: &mut Vec<u8>,
        f: impl FnMut(&Match, &[u8], &mut Vec<u8>) -> bool,
    ) -> Result<(), MatchError> {
        match self {
            Searcher::Top(a) => a.try_replace_all_with_bytes(hay, dst, f),
            _ => low!(self, a => a.try_replace_all_with_bytes(hay, dst, f)),
        }
    }

    pub fn replace_all_str(
        &self,
        hay: &str,
        repl: &[String],
    ) -> Result<String, MatchError> {
        match self {
            Searcher::Top(a) => a.try_replace_all(hay, repl),
            _ => low!(self, a => a.try_replace_all(hay, repl)),
        }
    }

    pub fn replace_all_with_str(
        &self,
        hay: &str,
        dst: &mut String,
        f: impl FnMut(&Match, &str, &mut String) -> bool,
    ) -> Result<(), MatchError> {
        match self {
            Searcher::Top(a) => a.try_replace_all_with(hay, dst, f),
            _ => low!(self, a => a.try_replace_all_with(hay, dst, f)),
        }
    }
}

/// Name of the prefilter variant a configuration selects, from the `Debug`
/// output of `Automaton::prefilter()` of a noncontiguous NFA built with the
/// same options. Used for coverage classification only.
pub fn prefilter_class(cfg: &Cfg, pats: &[Vec<u8>]) -> String {
    if !cfg.prefilter {
        return "off".to_string();
    }
    let nfa = match guard(|| build_nc(cfg, pats)) {
        Ok(Ok(n)) => n,
        _ => return "build-failed".to_string(),
    };
    match nfa.prefilter() {
        None => "none".to_string(),
        Some(p) => {
            let s = format!("{:?}", p);
            for name in [
                "RareBytesOne",
                "RareBytesTwo",
                "RareBytesThree",
                "StartBytesOne",
                "StartBytesTwo",
                "StartBytesThree",
                "Memmem",
                "Packed",
            ] {
                if s.contains(name) {
                    return name.to_string();
                }
            }
            "unknown".to_string()
        }
    }
}
