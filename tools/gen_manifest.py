#!/usr/bin/env python3
"""Regenerates /verif/MANIFEST.json from the table below (kept next to the code so that
the manifest, DESIGN.md and the harness stay in step)."""
import json, os, subprocess, sys

ROOT = os.path.dirname(os.path.dirname(os.path.abspath(__file__)))

HOOK_COMMITS = ["7a84c71", "6c41cd0", "cace6e8", "19dcc18"]

# id -> (technique, level text, level note, design ref)
CHECKS = {
 "C01": ("property-based testing against a reference model (proptest, 16 seeded workers) + bounded-exhaustive enumeration + regression replays",
         "Exploration: every generated/enumerated (config, pattern list, haystack, span) is compared with an independent quadratic reference model of leftmost-first/-longest find and the iterator; all lists of <=2 (thorough <=3) patterns over {a,b} incl. the empty pattern x all haystacks <=5 (<=7) x all spans are enumerated completely.",
         "Trusted: reference model (harness/src/model.rs), proptest, the reading of the empty-match iterator rule. Held-on-everything-explored, not a proof.", "DESIGN.md §4 C01"),
 "C02": ("property-based testing against a reference model + bounded-exhaustive enumeration",
         "Exploration: standard-semantics find/iterator vs. the model's argmin(end, longest, supply order) on generated and enumerated inputs.",
         "Trusted: reference model, proptest.", "DESIGN.md §4 C02"),
 "C03": ("model-based testing of call histories on one OverlappingState (exact sequence oracle) + bounded-exhaustive enumeration + regression replays",
         "Exploration: the full stepwise history and the overlapping iterator are compared element by element with the model's ordered occurrence list; 3 extra steps after exhaustion must stay silent.",
         "Trusted: reference model, proptest.", "DESIGN.md §4 C03"),
 "C09": ("property-based testing against the reference model restricted to the anchored start + bounded-exhaustive enumeration + regression replays",
         "Exploration: anchored find / iterator / stepwise overlapping / is_match / earliest vs. the model restricted to occurrences starting at the search start, all match kinds and anchoring-capable engines.",
         "Trusted: reference model, proptest.", "DESIGN.md §4 C09"),
 "C11": ("property-based testing against a case-folding reference model + bounded-exhaustive enumeration over {a,A,@}",
         "Exploration: all search APIs with ascii_case_insensitive(true) vs. a model that folds exactly A-Z, on alphabets containing the bytes adjacent to the letter ranges and high bytes that look like letters.",
         "Trusted: reference model fold(), proptest.", "DESIGN.md §4 C11"),
 "C14": ("property-based testing: is_match/find/model agreement and an earliest-mode validity predicate + bounded-exhaustive enumeration",
         "Exploration: is_match == find.is_some() == model; earliest result is a genuine occurrence ending no later than the normal match and None iff the normal search is None.",
         "Trusted: reference model, proptest.", "DESIGN.md §4 C14"),
 "C04": ("exhaustive per-pattern-list exploration of the product of the automaton representations (bisimulation on the observables the search loops read) over generated pattern lists + API-level differential testing",
         "Exploration, exhaustive per pattern list: for each generated pattern list/option set the product of the noncontiguous NFA with every other representation (alt dense depth, contiguous NFA, DFA x 3 start kinds) is explored over all 256 bytes to closure, comparing dead/match/match-list at each product state; this decides equality on haystacks of every length for that pattern list. API results of all 7 engines x start kinds are also compared on a generated haystack.",
         "Trusted: the argument that the search loops read only the compared observables; sampled over pattern lists; 300k product-state cap (exceptions are counted).", "DESIGN.md §4 C04"),
 "C16": ("exhaustive walk of every reachable automaton state x 256 bytes x supported anchoring arguments over generated pattern lists, with contract invariants; documented caller loop vs built-in search",
         "Exploration, exhaustive per automaton: all states reachable from every obtainable start state are visited and the contract invariants of the Automaton trait are asserted on each; the search loop transcribed from the trait documentation is compared with try_find and the model.",
         "Trusted: transcription of the documented loop; sampled over pattern lists.", "DESIGN.md §4 C16"),
 "C05": ("differential testing prefilter(true) vs prefilter(false), both against the reference model, with constructive generators per prefilter variant",
         "Exploration: every prefilter variant (memmem, start-bytes 1-3, rare-bytes 1-3, packed) is selected by constructed pattern lists (measured from Debug output), haystacks up to 4 KiB with candidate bytes around true matches; find/iter/overlapping/is_match must equal the model with the prefilter on and off; earliest is checked as a validity predicate.",
         "Trusted: reference model; classification via Debug formatting (never a violation).", "DESIGN.md §4 C05"),
 "C10": ("metamorphic testing (sub-slice equivalence, outside-byte rewriting, containment, empty-range) with adversarial boundary completion",
         "Exploration: R1 span == shifted sub-slice, R2 outside bytes irrelevant (incl. content that would complete a match across the boundary), R3 containment, R4 start=end+1, for all engines/prefilter shapes and packed::Searcher::find_in.",
         "Trusted: determinism of searches; reference model for the cross-check.", "DESIGN.md §4 C10"),
 "C06": ("property-based testing of packed searchers against the reference model with variant forcing (Rabin-Karp / slim128 / slim256 / fat256 x mask 1-4) + deterministic length/offset sweep",
         "Exploration: every algorithm variant available on the CPU is forced through the hidden Config knobs; find_in/find/find_iter are compared with the model's leftmost-first/-longest definitions on colliding pattern families, planted matches at every offset 0..90 and spans; a deterministic sweep enumerates every haystack length 0..72 x every plant offset for 4 colliding families x 4 mask lengths x 5 variants x 2 kinds.",
         "Trusted: reference model; only x86-64 SSSE3/AVX2 vector code is exercised.", "DESIGN.md §4 C06"),
 "C15": ("property-based testing in child processes with guard-page-backed haystacks (fault injection by memory protection); post-conditions on every match",
         "Exploration: haystacks are placed flush against PROT_NONE pages on either side in 16 child processes; any access outside the slice kills the child and the breadcrumb case becomes the replay; panics are caught; matches must satisfy start <= end <= len, pattern < patterns_len, inside span.",
         "Trusted: the kernel's page protection; does not see over-reads of pattern storage (ASan fuzzing in the thorough tier does).", "DESIGN.md §4 C15"),
 "C07": ("model-based property testing over generated read schedules (incl. cuts derived from the expected matches) and hook-controlled buffer capacities",
         "Exploration over schedules: stream_find_iter under generated chunkings and buffer capacities longest+1.. (hook) must equal the model iterator on the concatenation and the in-memory iterator; roll/refill is exercised on short streams (measured by the roll counter).",
         "Trusted: reference model; the capacity hook changes nothing but Buffer::new's capacity.", "DESIGN.md §4 C07"),
 "C08": ("model-based property testing of stream replacement (table and closure variants) over generated schedules, capacities and partial writers",
         "Exploration: bytes written == model replace_all on the concatenation == in-memory replace_all_bytes; the closure sees exactly the model's matches and bytes.",
         "Trusted: reference model; capacity hook.", "DESIGN.md §4 C08"),
 "C18": ("fault injection enumerated exhaustively per generated case (every read call, every write call, every accepted-byte count, every closure call) with prefix-consistency oracle",
         "Fault enumeration: for each generated (stream, schedule, capacity, table) every fault position is injected after a fault-free reference run (runs with more than 400 read/write calls - only the > 64 KiB stream class - get the first, last and evenly spaced positions); the injected error must surface, nothing may panic, matches and written bytes must be prefixes of the fault-free run.",
         "Trusted: fault granularity = call / byte; exhaustive over fault positions per case, sampled over cases.", "DESIGN.md §4 C18"),
 "C12": ("model-based property testing of the in-memory replace routines (bytes and &str variants, table and closure, early termination)",
         "Exploration: results of replace_all(_bytes) and replace_all_with(_bytes) equal the splice of the model iterator; &str results are re-validated as UTF-8 and follow the boundary-skipping rule; fallible and infallible entry points.",
         "Trusted: reference model of the splice.", "DESIGN.md §4 C12"),
 "C13": ("exhaustive enumeration of the configuration product (4536 cells) with generated inputs per cell + random tier; Ok/Err/panic classification against the stated predicate",
         "Exploration, exhaustive over configuration cells: match kind x start kind x anchoring x automaton kind x 21 public search methods x pattern-list shape, each cell with several generated inputs; outcome must equal the predicate in the property statement and must not depend on engine or input; plus pattern lists of 32767..65537 patterns (15/16-bit boundaries) through every method.",
         "Trusted: the predicate as transcribed from the property; sampled over inputs.", "DESIGN.md §4 C13"),
 "C17": ("model-based testing of call histories (history independence, clone independence) + concurrent execution of the histories on shared searchers with sequential oracle",
         "Exploration: generated histories over searcher/clone/clone-of-clone; each result equals the model, is identical when re-run later on any handle, and identical when 2-8 threads execute the history concurrently (overlap measured); contention, cold-start (first use of a fresh large searcher by 8 threads) and stream-history (long patterns after tiny streams) scenarios. Interleavings are sampled, not enumerated.",
         "Trusted: OS scheduler sampling; this technique cannot enumerate schedules (stated limit).", "DESIGN.md §4 C17"),
 "C19": ("property-based testing with instrumentation counters (cfg hook) and a deterministic step budget over adversarial pattern/haystack families",
         "Exploration: per search call transitions <= span, positions strictly increase, NFA failure links <= transitions, DFA failure links == 0, step budget 2*span+16 never trips; adversarial a^k b / nested-suffix / Fibonacci families with chain-riding haystacks.",
         "Trusted: the hook call sites (next_state call sites of the three loops; both NFA fail loops).", "DESIGN.md §4 C19"),
 "C20": ("property-based testing of construction over shape-diverse collections x all builder options with metadata and id oracle",
         "Exploration: build must succeed without panic for every generated collection/option combination; kind(), patterns_len, min/max_pattern_len, match_kind, start_kind, Automaton::pattern_len mirror the input; one model-checked iteration per build pins pattern ids to input positions; deterministic scenarios at the DFA state-id limit (forced DFA: error or DFA; automatic kind: must fall back) and a ~18M-word contiguous encoding.",
         "Trusted: reference model; sizes near the documented limits are only touched by the deterministic scenarios.", "DESIGN.md §4 C20"),
}

NOT_YET = {}

def main():
    props = [json.loads(l) for l in open(os.path.join(ROOT, "properties.jsonl"))]
    checks = []
    na = []
    for p in props:
        pid = p["id"]
        if pid in CHECKS:
            tech, text, note, ref = CHECKS[pid]
            checks.append({
                "property_id": pid,
                "quick_cmd": "./check %s quick" % pid,
                "thorough_cmd": "./check %s thorough" % pid,
                "evidence_file": "/verif/evidence/%s.json" % pid,
                "replay_cmd_template": "./check %s --replay {path}" % pid,
                "engine": "acverif",
                "level_claimed": {"category": "fault_enumeration" if pid == "C18" else "exploration", "text": text, "design_ref": ref},
                "level_note": note,
                "technique": tech,
            })
        else:
            na.append({"property_id": pid, "reason": NOT_YET.get(pid, "check not built yet in this session (property-based check planned in DESIGN.md §4); not claimed until it exists")})
    m = {
        "version": 1,
        "setup_cmd": "./check --build",
        "hooks": {
            "guard": "aho_corasick_verif",
            "enable": "RUSTFLAGS=\"--cfg aho_corasick_verif\" (set in /verif/harness/.cargo/config.toml [build] rustflags)",
            "baseline_off_cmd": "cd /repo && cargo test --offline --no-fail-fast",
            "source_commits": HOOK_COMMITS,
            "add_only": True,
        },
        "engines": [
            {"name": "acverif", "path": "/verif/harness", "serves_properties": sorted(CHECKS.keys()),
             "kind_free_text": "Rust harness: proptest strategies (structured generators, 16 seeded workers), independent reference model, bounded-exhaustive enumerators, replay of serialised cases; path-depends on /repo and rebuilds it with --cfg aho_corasick_verif on every check"},
        ],
        "checks": checks,
        "not_applicable": na,
        "notes": "All checks: exit 0 held, 1 violation (VIOLATION line), 2 build failure/watchdog (INCONCLUSIVE). VERIF_SEED selects the PRNG stream; VERIF_SCALE scales the random-tier case count (default 1).",
    }
    json.dump(m, open(os.path.join(ROOT, "MANIFEST.json"), "w"), indent=1)
    print("wrote MANIFEST.json with", len(checks), "checks,", len(na), "not_applicable")

main()
