//! acverif: property-based testing and fuzzing harness for aho-corasick.
pub mod case;
pub mod engine;
pub mod exhaust;
pub mod fuzzdec;
pub mod gen;
pub mod model;
pub mod props;
pub mod runner;
pub mod sem;
