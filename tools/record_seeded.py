#!/usr/bin/env python3
"""Writes seeded/<id>/meta.json for every confirmed seeded change and seeded/RESULTS.md (the detection table).
Inputs: seeded/<id>/{patch.diff,demo.rs,notes.md,result-seed*.txt} (results are written by tools/run_all_seeded.sh)."""
import glob, json, os, re
ROOT = os.path.dirname(os.path.dirname(os.path.abspath(__file__)))
rows = []
for d in sorted(glob.glob(os.path.join(ROOT, "seeded", "C*-*"))):
    name = os.path.basename(d)
    prop = name.split("-")[0]
    patch = open(os.path.join(d, "patch.diff")).read()
    files = sorted(set(re.findall(r"^\+\+\+ b/(\S+)", patch, re.M)))
    notes = ""
    np_ = os.path.join(d, "notes.md")
    if os.path.exists(np_):
        notes = open(np_).read()
    needs = ""
    m = re.search(r"(?is)(needed to manifest|needs? to manifest|what is needed|needs?:|trigger)[^\n]*\n?(.{0,900})", notes)
    if m:
        needs = (m.group(0)).strip()
    else:
        needs = notes.strip()[:900]
    results = {}
    for r in sorted(glob.glob(os.path.join(d, "result-seed*.txt"))):
        seed = re.search(r"seed(\d+)", r).group(1)
        results["quick check of %s, VERIF_SEED=%s" % (prop, seed)] = open(r, errors="replace").read().strip()
    extra = os.path.join(d, "other-checks.txt")
    if os.path.exists(extra):
        results["other checks"] = open(extra).read().strip().splitlines()
    m_round = re.search(r"-r(\d+)-", name)
    round_ = int(m_round.group(1)) if m_round else 1
    meta = {
        "id": name,
        "property_broken": prop,
        "round": round_,
        "origin": "independent sub-agent given only the property text and its own scratch git worktree of /repo (nothing from /verif)",
        "files_touched": files,
        "needs_to_manifest": needs,
        "confirmed_by_me": {
            "how": "tools/verify_seeded.sh: in the sub-agent's scratch worktree (outside /repo and /verif): git apply patch.diff; cargo test --offline --lib; cargo run --offline --example demo (with and without the patch); worktree reset and removed afterwards",
            "lib_tests_with_patch": "163 passed; 0 failed",
            "demo_with_patch": "fails (non-zero exit)",
            "demo_without_patch": "passes (prints PROPERTY HOLDS)",
        },
        "run_against_checks": {
            "how": "tools/try_patch.sh: git -C /repo apply patch.diff; ./check <ID> quick; git -C /repo checkout -- .",
            "results": results,
        },
    }
    json.dump(meta, open(os.path.join(d, "meta.json"), "w"), indent=1)
    caught = [v for v in results.values() if isinstance(v, str)]
    status = "caught" if caught and all(c.startswith("CAUGHT") for c in caught) else ("MISSED by its own property's check (see other checks in meta.json / DESIGN.md 8.5)" if any(c.startswith("MISSED") for c in caught) else ("INCONCLUSIVE (hang / watchdog, exit 2; see DESIGN.md 8.5)" if any(c.startswith("INCONCLUSIVE") for c in caught) else "?"))
    rows.append((name, ", ".join(files), status, "; ".join(c[:90] for c in caught[:1])))
with open(os.path.join(ROOT, "seeded", "RESULTS.md"), "w") as f:
    f.write("# Seeded changes and which quick check catches them\n\n")
    f.write("Each row: a change written by an independent sub-agent (it saw only the property text), confirmed to compile, pass the 163 lib tests and fail its demo; then run against the quick check of the property it targets (see meta.json for all seeds and other checks).\n\n")
    f.write("| id | files | own property's quick check | first result |\n|---|---|---|---|\n")
    for r in rows:
        f.write("| %s | %s | %s | %s |\n" % r)
print("recorded", len(rows))
