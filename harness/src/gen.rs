//! Structured generators (proptest strategies). Everything random comes from
//! proptest so that shrinking and seeding work. Cases are built from
//! *recipes* that are realised in one final `prop_map`; indices are mapped
//! monotonically (`i * len >> 16`) so that shrinking a recipe shrinks the case.

use proptest::collection::vec;
use proptest::prelude::*;

use crate::case::{Case, Cfg, Engine, Mk, Sk};

pub const ALPHA_AB: usize = 0;
pub const ALPHA_ABCX: usize = 1;
pub const ALPHA_CASE: usize = 2;
pub const ALPHA_NYBBLE: usize = 3;
pub const ALPHA_TEXT: usize = 4;
pub const ALPHA_UTF8: usize = 5;
pub const ALPHA_FULL: usize = 6;
pub const ALPHA_HIGHCASE: usize = 7;
pub const ALPHA_LETTERMIX: usize = 8;
pub const ALPHA_ONEHIGH: usize = 9;
pub const ALPHA_EDGES: usize = 10;

pub fn alphabet(idx: usize) -> Vec<u8> {
    match idx {
        0 => b"ab".to_vec(),
        1 => b"abcx".to_vec(),
        // letters in both cases plus the four bytes adjacent to the letter
        // ranges
        2 => b"aAbBzZ@[`{kK".to_vec(),
        // bytes that collide in the low nybble (Teddy fingerprints)
        3 => vec![0x41, 0x51, 0x61, 0x71, 0x14, 0x24, 0x42, 0x52, 0x62, 0x12, 0x31, 0x21],
        // common letters + rare bytes (prefilter rank heuristics)
        4 => b"etaoin QZ~qj".to_vec(),
        // UTF-8 pieces: e-acute, euro sign, emoji and their fragments
        5 => vec![0xc3, 0xa9, 0xe2, 0x82, 0xac, 0xf0, 0x9f, 0x98, 0x80, b'a', b'b', 0xf4, 0x8f, 0xbf, 0xc2, 0xdf, 0xe0, 0xa0, 0xef, 0x90, 0x7f],
        6 => (0..=255u8).collect(),
        // few letters in both cases with very different frequency ranks plus
        // one rare non-letter: rare bytes become letters
        8 => b"eEtTxX#e".to_vec(),
        // small alphabet whose only non-ASCII byte is 0x80 (the first one)
        9 => vec![b'a', b'b', b'c', 0x80],
        // the bytes at the ends of the ASCII and of the byte range
        10 => vec![b'a', b'b', 0x00, 0x7f, 0x80, 0xff, 0x01, 0xfe],
        // letters and bytes >= 0x80 whose low bits look like letters
        _ => vec![b'a', b'A', b'c', b'C', 0xc1, 0xe1, 0xc3, 0xe3, 0x41 | 0x80, b'z', b'Z', 0x5b, 0x7b],
    }
}

fn pick(alpha: &[u8], raw: u8) -> u8 {
    alpha[(raw as usize * alpha.len()) >> 8]
}

fn map_bytes(alpha: &[u8], raw: &[u8]) -> Vec<u8> {
    raw.iter().map(|&r| pick(alpha, r)).collect()
}

/// monotone index: maps i in 0..=65535 onto 0..len
fn idx(i: u16, len: usize) -> usize {
    debug_assert!(len > 0);
    (i as usize * len) >> 16
}

fn flip_case(b: u8) -> u8 {
    if b.is_ascii_alphabetic() {
        b ^ 0x20
    } else {
        b
    }
}

// ---------------------------------------------------------------- patterns

#[derive(Clone, Debug)]
pub struct PatOp {
    pub kind: u8,
    pub from: u16,
    pub a: u16,
    pub b: u8,
    pub raw: Vec<u8>,
}

#[derive(Clone, Debug)]
pub enum PatList {
    General(Vec<PatOp>),
    /// exactly one pattern (memmem prefilter when case sensitive)
    Single(Vec<u8>),
    /// <= 3 distinct ASCII first bytes
    StartBytes { firsts: Vec<u8>, tails: Vec<(u8, Vec<u8>)> },
    /// each pattern = common prefix bytes + one of <= 3 rare bytes + suffix
    RareBytes { rares: Vec<u8>, items: Vec<(u8, Vec<u8>, Vec<u8>, u8)> },
    /// many distinct first bytes, min len >= 2, <= 16 patterns (packed)
    Packedish(Vec<Vec<u8>>),
    /// a^k b families, nested suffixes (deep failure chains)
    Adversarial { kind: u8, k: u16, n: u8 },
    /// one trie node with many children: prefix + distinct byte + tail
    Fanout { prefix: Vec<u8>, n: u16, start: u8, tails: Vec<u8> },
    /// 17..64 patterns of length >= 2 over many first bytes, with duplicates
    /// (selects the packed prefilter through the 'no start/rare prefilter'
    /// fallback; exercises ordering of equal patterns in larger sets)
    MidPacked { raws: Vec<Vec<u8>>, dups: Vec<(u16, u16)> },
    /// 126..135 patterns sharing <= 3 first bytes (or <= 3 rare bytes),
    /// followed by a few patterns of a different kind: things that count
    /// patterns (the 128-pattern limit of the packed builder, ...) must not
    /// silently drop the late ones
    ManyThenOdd { base: Box<PatList>, n: u8, odd: Vec<Vec<u8>> },
    /// patterns that start with a multi-byte UTF-8 character (few distinct
    /// lead bytes) followed by an ASCII tail
    Utf8Starts { items: Vec<(u8, Vec<u8>)> },
    /// n nested patterns p, pp, ppp, ... (or all prefixes of a long word):
    /// states that carry hundreds of matches
    DeepNested { unit: Vec<u8>, n: u16, reverse: bool },
    /// long patterns (>= 64 bytes) that are proper prefixes / suffixes of
    /// each other, in generated order, plus a few short companions
    LongNested { base: Vec<u8>, cuts: Vec<(u16, bool)>, extra: Vec<Vec<u8>>, rotate: u8 },
}

#[derive(Clone, Copy, Debug)]
pub struct PatOpts {
    /// weight (out of ~100) of the "empty pattern" op in general lists
    pub w_empty: u32,
    /// maximum number of patterns class: 0 => up to 6, 1 => up to 40, 2 => up to 128
    pub max_class: u8,
    /// include very long patterns (up to 300)
    pub long: bool,
    /// weight of prefilter-shaped lists relative to general (general = 10)
    pub w_shapes: u32,
    /// weight of adversarial lists
    pub w_adversarial: u32,
    /// weight of fan-out lists (a trie node with up to 255 children)
    pub w_fanout: u32,
}

impl Default for PatOpts {
    fn default() -> PatOpts {
        PatOpts { w_empty: 6, max_class: 1, long: false, w_shapes: 3, w_adversarial: 1, w_fanout: 0 }
    }
}

fn raw_pat(long: bool) -> BoxedStrategy<Vec<u8>> {
    if long {
        prop_oneof![
            20 => vec(any::<u8>(), 1..=1),
            50 => vec(any::<u8>(), 2..=5),
            20 => vec(any::<u8>(), 6..=12),
            8 => vec(any::<u8>(), 13..=40),
            2 => vec(any::<u8>(), 41..=300),
        ]
        .boxed()
    } else {
        prop_oneof![
            20 => vec(any::<u8>(), 1..=1),
            55 => vec(any::<u8>(), 2..=5),
            20 => vec(any::<u8>(), 6..=12),
            5 => vec(any::<u8>(), 13..=40),
        ]
        .boxed()
    }
}

fn pat_op(o: PatOpts) -> BoxedStrategy<PatOp> {
    let mut alts: Vec<(u32, BoxedStrategy<u8>)> = vec![
        (40, Just(0u8).boxed()),  // fresh
        (6, Just(4u8).boxed()),   // duplicate
        (9, Just(5u8).boxed()),   // proper prefix
        (9, Just(6u8).boxed()),   // proper suffix
        (6, Just(7u8).boxed()),   // infix
        (8, Just(8u8).boxed()),   // extension (earlier is a prefix of new)
        (6, Just(9u8).boxed()),   // one byte changed
        (4, Just(10u8).boxed()),  // case flipped
        (3, Just(11u8).boxed()),  // high nybble flipped
        (8, Just(12u8).boxed()),  // prepend (earlier is a suffix of new)
    ];
    if o.w_empty > 0 {
        alts.push((o.w_empty, Just(13u8).boxed())); // the empty pattern
    }
    let kind = proptest::strategy::Union::new_weighted(alts);
    (kind, any::<u16>(), any::<u16>(), any::<u8>(), raw_pat(o.long))
        .prop_map(|(kind, from, a, b, raw)| PatOp { kind, from, a, b, raw })
        .boxed()
}

fn general_list(o: PatOpts) -> BoxedStrategy<PatList> {
    let op = pat_op(o);
    let s: BoxedStrategy<Vec<PatOp>> = match o.max_class {
        0 => prop_oneof![
            10 => vec(op.clone(), 1..=1),
            70 => vec(op.clone(), 2..=4),
            20 => vec(op.clone(), 5..=6),
        ]
        .boxed(),
        1 => prop_oneof![
            8 => vec(op.clone(), 1..=1),
            55 => vec(op.clone(), 2..=6),
            30 => vec(op.clone(), 7..=16),
            7 => vec(op.clone(), 17..=40),
        ]
        .boxed(),
        _ => prop_oneof![
            5 => vec(op.clone(), 1..=1),
            45 => vec(op.clone(), 2..=6),
            30 => vec(op.clone(), 7..=40),
            15 => vec(op.clone(), 41..=100),
            5 => vec(op.clone(), 101..=128),
        ]
        .boxed(),
    };
    s.prop_map(PatList::General).boxed()
}

fn shaped_list() -> BoxedStrategy<PatList> {
    let tail = vec(any::<u8>(), 0..=6);
    prop_oneof![
        3 => prop_oneof![
            12 => vec(any::<u8>(), 1..=12),
            3 => vec(any::<u8>(), 13..=300),
            1 => vec(any::<u8>(), 1020..=1030),
            1 => vec(any::<u8>(), 1031..=1600),
        ]
        .prop_map(PatList::Single),
        4 => (vec(any::<u8>(), 1..=3), vec((any::<u8>(), tail.clone()), 1..=8))
            .prop_map(|(firsts, tails)| PatList::StartBytes { firsts, tails }),
        6 => (
            vec(any::<u8>(), 1..=3),
            vec(
                (
                    any::<u8>(),
                    // the rare byte's offset: mostly small, sometimes just
                    // below, at and beyond the 255 limit of the offset table
                    // (patterns of >= 256 bytes must disable the prefilter)
                    prop_oneof![
                        24 => vec(any::<u8>(), 0..=6),
                        2 => vec(any::<u8>(), 240..=254),
                        3 => vec(any::<u8>(), 255..=258),
                        1 => vec(any::<u8>(), 259..=330),
                    ],
                    vec(any::<u8>(), 0..=5),
                    any::<u8>()
                ),
                1..=9
            )
        )
            .prop_map(|(rares, items)| PatList::RareBytes { rares, items }),
        4 => vec(vec(any::<u8>(), 2..=8), 3..=16).prop_map(PatList::Packedish),
        3 => (vec(vec(any::<u8>(), 2..=6), 14..=50), vec((any::<u16>(), any::<u16>()), 1..=12))
            .prop_map(|(raws, dups)| PatList::MidPacked { raws, dups }),
        2 => vec((any::<u8>(), vec(any::<u8>(), 0..=5)), 1..=6).prop_map(|items| PatList::Utf8Starts { items }),
        // between the packed searcher's internal thresholds (64 / 128 patterns)
        2 => (vec(vec(any::<u8>(), 2..=5), 60..=130), vec((any::<u16>(), any::<u16>()), 0..=4))
            .prop_map(|(raws, dups)| PatList::MidPacked { raws, dups }),
        2 => (vec(any::<u8>(), 70..=140), vec((any::<u16>(), any::<bool>()), 1..=4), vec(vec(any::<u8>(), 2..=6), 0..=4), any::<u8>())
            .prop_map(|(base, cuts, extra, rotate)| PatList::LongNested { base, cuts, extra, rotate }),
        1 => (vec(any::<u8>(), 1..=2), prop_oneof![6 => 2u16..=60, 2 => 250u16..=260, 1 => 261u16..=320], any::<bool>())
            .prop_map(|(unit, n, reverse)| PatList::DeepNested { unit, n, reverse }),
        2 => (
            prop_oneof![
                (vec(any::<u8>(), 1..=3), vec((any::<u8>(), vec(any::<u8>(), 1..=4)), 4..=8)).prop_map(|(firsts, tails)| PatList::StartBytes { firsts, tails }),
                (vec(any::<u8>(), 1..=3), vec((any::<u8>(), vec(any::<u8>(), 0..=4), vec(any::<u8>(), 0..=3), any::<u8>()), 4..=9)).prop_map(|(rares, items)| PatList::RareBytes { rares, items }),
            ],
            126u8..=135,
            vec(vec(any::<u8>(), 2..=5), 1..=3),
        )
            .prop_map(|(base, n, odd)| PatList::ManyThenOdd { base: Box::new(base), n, odd }),
        // around the packed searcher's 128-pattern limit and beyond
        1 => (vec(vec(any::<u8>(), 2..=5), 120..=200), vec((any::<u16>(), any::<u16>()), 0..=4))
            .prop_map(|(raws, dups)| PatList::MidPacked { raws, dups }),
    ]
    .boxed()
}

fn adversarial_list() -> BoxedStrategy<PatList> {
    (0u8..6, prop_oneof![8 => 1u16..=24, 2 => 25u16..=48, 1 => 250u16..=330], prop_oneof![4 => 1u8..=12, 1 => 13u8..=48])
        .prop_map(|(kind, k, n)| PatList::Adversarial { kind, k, n })
        .boxed()
}

fn fanout_list() -> BoxedStrategy<PatList> {
    (
        vec(any::<u8>(), 0..=4),
        // boundary values of the contiguous NFA's sparse/dense encodings
        prop_oneof![
            3 => 2u16..=12,
            2 => 13u16..=32,
            3 => 33u16..=125,
            4 => 126u16..=129,
            2 => 130u16..=252,
            4 => 253u16..=256,
        ],
        any::<u8>(),
        0u8..10,
        vec(any::<u8>(), 0..=3),
    )
        .prop_map(|(prefix, n, start, align, tails)| PatList::Fanout { prefix, n, start: fanout_start(n, start, align), tails })
        .boxed()
}

/// First child byte of a fan-out node: mostly arbitrary, but often aligned so
/// that the run of consecutive child bytes ends at 0xFF, starts at 0x00, or
/// ends/starts at the ASCII boundary 0x7F/0x80.
pub fn fanout_start(n: u16, raw: u8, align: u8) -> u8 {
    match align {
        0 => (256u16.wrapping_sub(n) & 0xFF) as u8,
        1 => 0,
        2 => (128u16.wrapping_sub(n) & 0xFF) as u8,
        3 => 128,
        // the run starts at 'A': with 33 or more children it spans both cases of a letter
        4 => b'A',
        _ => raw,
    }
}

pub fn pat_list(o: PatOpts) -> BoxedStrategy<PatList> {
    let mut alts: Vec<(u32, BoxedStrategy<PatList>)> = vec![(10, general_list(o))];
    if o.w_shapes > 0 {
        alts.push((o.w_shapes, shaped_list()));
    }
    if o.w_adversarial > 0 {
        alts.push((o.w_adversarial, adversarial_list()));
    }
    if o.w_fanout > 0 {
        alts.push((o.w_fanout, fanout_list()));
    }
    proptest::strategy::Union::new_weighted(alts).boxed()
}

const COMMON: &[u8] = b"etaoin srhl";
const RARE: &[u8] = &[b'Q', b'Z', b'~', b'q', b'J', b'X', 0xff, 0x00, b'#', 0xfe];
const STARTS: &[u8] = b"abfkzAQ@ 0~mt";

fn fib_word(n: usize) -> Vec<u8> {
    let (mut a, mut b) = (b"b".to_vec(), b"a".to_vec());
    while b.len() < n {
        let mut c = b.clone();
        c.extend_from_slice(&a);
        a = b;
        b = c;
    }
    b.truncate(n.max(1));
    b
}

pub fn realize_patterns(list: &PatList, alpha: &[u8]) -> Vec<Vec<u8>> {
    match list {
        PatList::General(ops) => {
            let mut out: Vec<Vec<u8>> = Vec::with_capacity(ops.len());
            for op in ops {
                let fresh = map_bytes(alpha, &op.raw);
                if out.is_empty() && op.kind != 13 {
                    out.push(fresh);
                    continue;
                }
                let src: Vec<u8> = if out.is_empty() {
                    Vec::new()
                } else {
                    out[idx(op.from, out.len())].clone()
                };
                let p = match op.kind {
                    4 => src,
                    5 => {
                        if src.len() >= 2 {
                            src[..1 + idx(op.a, src.len() - 1)].to_vec()
                        } else {
                            fresh
                        }
                    }
                    6 => {
                        if src.len() >= 2 {
                            src[1 + idx(op.a, src.len() - 1)..].to_vec()
                        } else {
                            fresh
                        }
                    }
                    7 => {
                        if src.len() >= 3 {
                            let s = 1 + idx(op.a, src.len() - 2);
                            let e = s + 1 + idx(op.from.rotate_left(7), src.len() - 1 - s);
                            src[s..e].to_vec()
                        } else {
                            fresh
                        }
                    }
                    8 => {
                        let mut p = src;
                        let n = 1 + idx(op.a, fresh.len().min(3));
                        p.extend_from_slice(&fresh[..n.min(fresh.len())]);
                        p
                    }
                    9 => {
                        let mut p = src;
                        if p.is_empty() {
                            fresh
                        } else {
                            let i = idx(op.a, p.len());
                            p[i] = pick(alpha, op.b);
                            p
                        }
                    }
                    10 => {
                        let mut p = src;
                        if p.is_empty() {
                            fresh
                        } else if op.b & 1 == 0 {
                            let i = idx(op.a, p.len());
                            p[i] = flip_case(p[i]);
                            p
                        } else {
                            p.iter().map(|&b| flip_case(b)).collect()
                        }
                    }
                    11 => {
                        let mut p = src;
                        if p.is_empty() {
                            fresh
                        } else {
                            let i = idx(op.a, p.len());
                            p[i] ^= 0x10 << (op.b & 3);
                            p
                        }
                    }
                    12 => {
                        let n = 1 + idx(op.a, fresh.len().min(3));
                        let mut p = fresh[..n.min(fresh.len())].to_vec();
                        p.extend_from_slice(&src);
                        p
                    }
                    13 => Vec::new(),
                    _ => fresh,
                };
                out.push(p);
            }
            out
        }
        PatList::Single(raw) => vec![map_bytes(alpha, raw)],
        PatList::StartBytes { firsts, tails } => {
            let firsts: Vec<u8> =
                firsts.iter().map(|&r| pick(STARTS, r)).collect();
            tails
                .iter()
                .map(|(f, t)| {
                    let mut p = vec![firsts[(*f as usize * firsts.len()) >> 8]];
                    p.extend(map_bytes(alpha, t));
                    p
                })
                .collect()
        }
        PatList::RareBytes { rares, items } => {
            let rares: Vec<u8> = rares.iter().map(|&r| pick(RARE, r)).collect();
            items
                .iter()
                .map(|(r, pre, suf, first)| {
                    // distinct-ish first bytes so that the start-byte
                    // prefilter is unavailable
                    // filler bytes are common letters; now and then one of the
                    // rare bytes themselves, in either case, so that a rare
                    // byte also occurs at other offsets of other patterns
                    let filler = |x: u8| -> u8 {
                        if x % 13 == 0 {
                            let b = rares[(x as usize / 13) % rares.len()];
                            if x % 2 == 0 {
                                flip_case(b)
                            } else {
                                b
                            }
                        } else {
                            pick(COMMON, x)
                        }
                    };
                    let mut p = Vec::new();
                    if !pre.is_empty() {
                        p.push(pick(b"etaoinsrhldcum", *first));
                        if pre.len() > 40 {
                            // long prefix: common letters only, so that the
                            // pattern's only rare byte sits at a large offset
                            p.extend(pre[1..].iter().map(|&x| pick(COMMON, x)));
                        } else {
                            p.extend(pre[1..].iter().map(|&x| filler(x)));
                        }
                    }
                    let ri = (*r as usize * rares.len()) >> 8;
                    // every third pattern: one byte in front of its rare byte
                    // is ANOTHER pattern's rare byte in the opposite case
                    if *first % 3 == 0 && p.len() >= 2 && rares.len() >= 2 {
                        let pos = 1 + (*first as usize / 3) % (p.len() - 1);
                        p[pos] = flip_case(rares[(ri + 1) % rares.len()]);
                    }
                    p.push(rares[ri]);
                    p.extend(suf.iter().map(|&x| filler(x)));
                    p
                })
                .collect()
        }
        PatList::Packedish(raws) => {
            let full = alphabet(if alpha.len() < 8 { ALPHA_TEXT } else { ALPHA_FULL });
            let a: &[u8] = if alpha.len() >= 8 { alpha } else { &full };
            let mut out: Vec<Vec<u8>> = raws.iter().map(|r| map_bytes(a, r)).collect();
            // one list in four: every pattern long (9..=40 bytes), so that the
            // packed searcher's minimum length is far above the Teddy masks
            let stretch = if raws[0][0] % 4 == 0 { 9 + (raws[0][1] as usize % 32) } else { 0 };
            for p in out.iter_mut() {
                let orig = p.clone();
                let mut i = 0;
                while p.len() < stretch {
                    p.push(a[(orig[i % orig.len()] as usize + i * 37) % a.len()]);
                    i += 1;
                }
            }
            out
        }
        PatList::MidPacked { raws, dups } => {
            let full = alphabet(ALPHA_FULL);
            let text = alphabet(ALPHA_TEXT);
            let a: &[u8] = if alpha.len() >= 8 { alpha } else if raws.len() % 2 == 0 { &full } else { &text };
            let mut out: Vec<Vec<u8>> = raws.iter().map(|r| map_bytes(a, r)).collect();
            // shortest pattern 2, 3 or 4 bytes (selects the Teddy mask length)
            let minlen = 2 + (raws[0][0] as usize % 3);
            for p in out.iter_mut() {
                let orig = p.clone();
                let mut i = 0;
                while p.len() < minlen {
                    p.push(orig[i % orig.len()]);
                    i += 1;
                }
            }
            for (from, at) in dups {
                let src = out[idx(*from, out.len())].clone();
                let pos = idx(*at, out.len() + 1);
                out.insert(pos, src);
            }
            // larger lists: the last pattern contains the first one as an
            // infix (an early pattern id occurring strictly inside a late one)
            if out.len() > 40 {
                let mut p = vec![a[(raws.len() * 7) % a.len()]];
                p.extend_from_slice(&out[0]);
                p.push(a[(raws.len() * 3) % a.len()]);
                p.push(a[(raws.len() * 5) % a.len()]);
                let last = out.len() - 1;
                out[last] = p;
            }
            out
        }
        PatList::Utf8Starts { items } => {
            const LEADS: [&str; 8] = ["é", "è", "ü", "ñ", "€", "😀", "ß", "é"];
            items
                .iter()
                .map(|(l, tail)| {
                    let mut p = LEADS[(*l as usize * LEADS.len()) >> 8].as_bytes().to_vec();
                    p.extend(tail.iter().map(|&x| pick(b"norme tasuil", x)));
                    p
                })
                .collect()
        }
        PatList::ManyThenOdd { base, n, odd } => {
            let seedlist = realize_patterns(base, alpha);
            let mut out: Vec<Vec<u8>> = Vec::with_capacity(*n as usize + odd.len());
            let mut i = 0usize;
            while out.len() < *n as usize {
                // distinct patterns: the cycled base pattern plus a counter suffix
                let mut p = seedlist[i % seedlist.len()].clone();
                if i >= seedlist.len() {
                    p.push(b'0' + ((i / seedlist.len()) % 10) as u8);
                    p.push(b'a' + ((i / (10 * seedlist.len())) % 26) as u8);
                }
                out.push(p);
                i += 1;
            }
            // the late, different patterns: first bytes unlike the others
            for (k, o) in odd.iter().enumerate() {
                let mut p = vec![[b'~', b'^', b'|'][k % 3]];
                p.extend(map_bytes(alpha, o));
                out.push(p);
            }
            out
        }
        PatList::DeepNested { unit, n, reverse } => {
            let unit = map_bytes(alpha, unit);
            let mut out: Vec<Vec<u8>> = Vec::with_capacity(*n as usize);
            let mut cur = Vec::new();
            for _ in 0..*n {
                cur.extend_from_slice(&unit);
                out.push(cur.clone());
            }
            if *reverse {
                out.reverse();
            }
            // every other list: a short pattern that only matches after the
            // whole failure chain of the nested patterns has been walked
            // (first byte of the unit followed by a different byte)
            if *n % 2 == 0 {
                let other = alpha.iter().copied().find(|b| !unit.contains(b)).unwrap_or(unit[0] ^ 1);
                out.push(vec![unit[0], other]);
            }
            out
        }
        PatList::LongNested { base, cuts, extra, rotate } => {
            let full = alphabet(ALPHA_TEXT);
            let a: &[u8] = if alpha.len() >= 4 { alpha } else { &full };
            let base = map_bytes(a, base);
            let mut out = vec![base.clone()];
            for (c, suffix) in cuts {
                // a proper prefix (or suffix) of at least 64 bytes
                let keep = 64 + idx(*c, base.len() - 64);
                if *suffix {
                    out.push(base[base.len() - keep..].to_vec());
                } else {
                    out.push(base[..keep].to_vec());
                }
            }
            out.extend(extra.iter().map(|r| map_bytes(a, r)));
            let n = out.len();
            out.rotate_left(*rotate as usize % n);
            out
        }
        PatList::Fanout { prefix, n, start, tails } => {
            let prefix = map_bytes(alpha, prefix);
            let mut out: Vec<Vec<u8>> = (0..*n as usize)
                .map(|i| {
                    let mut p = prefix.clone();
                    p.push(start.wrapping_add(i as u8));
                    if !tails.is_empty() {
                        let t = tails[i % tails.len()];
                        if t & 3 != 0 {
                            p.push(pick(alpha, t));
                        }
                    }
                    p
                })
                .collect();
            // half of the lists: two of the child bytes are patterns of their
            // own (suffixes of the fan-out patterns: inherited matches below a
            // wide node)
            if tails.len() >= 2 && tails[1] & 1 == 1 && !prefix.is_empty() {
                out.push(vec![start.wrapping_add((*n / 2) as u8)]);
                out.push(vec![start.wrapping_add((*n - 1) as u8)]);
            }
            out
        }
        PatList::Adversarial { kind, k, n } => {
            let (k, n) = (*k as usize, *n as usize);
            let a = alpha[0];
            let b = alpha[alpha.len() - 1];
            match kind {
                // a^i b for i in 0..n  (long shared prefixes)
                0 => (0..n).map(|i| { let mut p = vec![a; i + k / 4]; p.push(b); p }).collect(),
                // all suffixes of a^k b (nested suffixes, deep failure chains)
                1 => { let mut w = vec![a; k]; w.push(b); (0..w.len().min(n + 1)).map(|i| w[i..].to_vec()).collect() }
                // a^k, a^k b and ab (ab only matches after the whole failure chain was walked)
                2 => { let mut w = vec![a; k]; let mut v = vec![w.clone()]; w.push(b); v.push(w); v.push(vec![a, b]); v }
                // all suffixes of a Fibonacci word
                3 => { let w = fib_word(k + 2); (0..w.len().min(n + 1)).map(|i| w[i..].iter().map(|&c| if c == b'a' { a } else { b }).collect()).collect() }
                // prefixes of a^k b (every prefix is a pattern)
                4 => { let mut w = vec![a; k]; w.push(b); (1..=w.len().min(n + 1)).map(|i| w[..i].to_vec()).collect() }
                // (ab)^i a and friends: periodic
                _ => (1..=n).map(|i| { let mut p = Vec::new(); for j in 0..(i + k / 6) { p.push(if j % 2 == 0 { a } else { b }); } p }).collect(),
            }
        }
    }
}

// ---------------------------------------------------------------- haystacks

#[derive(Clone, Debug)]
pub struct Piece {
    pub kind: u8,
    pub idx: u16,
    pub a: u16,
    pub b: u8,
    pub raw: Vec<u8>,
}

#[derive(Clone, Copy, Debug)]
pub struct HayOpts {
    /// 0: up to ~16 bytes typical, 1: up to ~80, 2: up to ~400, 3: up to ~4K
    pub size_class: u8,
}

pub fn hay_recipe(o: HayOpts) -> BoxedStrategy<Vec<Piece>> {
    let kind = prop_oneof![
        30 => Just(0u8),  // random bytes
        22 => Just(2u8),  // whole pattern
        12 => Just(4u8),  // proper prefix of a pattern
        8 => Just(5u8),   // pattern with one byte altered
        7 => Just(6u8),   // pattern with case flipped
        6 => Just(7u8),   // first byte of a pattern (prefilter candidate)
        5 => Just(8u8),   // interior byte of a pattern (rare byte candidate)
        6 => Just(9u8),   // proper suffix of a pattern
        4 => Just(10u8),  // run of one byte
        3 => Just(11u8),  // pattern repeated twice (adjacent matches)
    ];
    let piece = (kind, any::<u16>(), any::<u16>(), any::<u8>(), vec(any::<u8>(), 0..=6))
        .prop_map(|(kind, idx, a, b, raw)| Piece { kind, idx, a, b, raw });
    match o.size_class {
        0 => prop_oneof![
            5 => vec(piece.clone(), 0..=0),
            60 => vec(piece.clone(), 1..=3),
            35 => vec(piece.clone(), 4..=6),
        ]
        .boxed(),
        1 => prop_oneof![
            3 => vec(piece.clone(), 0..=0),
            40 => vec(piece.clone(), 1..=4),
            45 => vec(piece.clone(), 5..=12),
            12 => vec(piece.clone(), 13..=24),
        ]
        .boxed(),
        2 => prop_oneof![
            2 => vec(piece.clone(), 0..=0),
            25 => vec(piece.clone(), 1..=4),
            40 => vec(piece.clone(), 5..=16),
            25 => vec(piece.clone(), 17..=48),
            8 => vec(piece.clone(), 49..=100),
        ]
        .boxed(),
        _ => prop_oneof![
            1 => vec(piece.clone(), 0..=0),
            20 => vec(piece.clone(), 1..=6),
            35 => vec(piece.clone(), 7..=32),
            30 => vec(piece.clone(), 33..=120),
            14 => vec(piece.clone(), 121..=600),
        ]
        .boxed(),
    }
}

pub fn realize_haystack(
    pieces: &[Piece],
    pats: &[Vec<u8>],
    alpha: &[u8],
    size_class: u8,
) -> Vec<u8> {
    let mut h = Vec::new();
    let run_cap = match size_class {
        0 => 6,
        1 => 20,
        2 => 70,
        _ => 300,
    };
    for p in pieces {
        // boundary bias: the last and the first pattern of the list are drawn
        // more often than the others (largest / smallest child of a fan-out
        // node, last pattern id, ...)
        let pat: &[u8] = if pats.is_empty() {
            b""
        } else {
            match p.a % 8 {
                0 => &pats[pats.len() - 1],
                1 => &pats[0],
                _ => &pats[idx(p.idx, pats.len())],
            }
        };
        match p.kind {
            2 if !pat.is_empty() => h.extend_from_slice(pat),
            4 if pat.len() >= 2 => h.extend_from_slice(&pat[..1 + idx(p.a, pat.len() - 1)]),
            5 if !pat.is_empty() => {
                let mut q = pat.to_vec();
                let i = idx(p.a, q.len());
                q[i] = pick(alpha, p.b);
                h.extend_from_slice(&q);
            }
            6 if !pat.is_empty() => {
                if p.b & 1 == 0 {
                    h.extend(pat.iter().map(|&b| flip_case(b)));
                } else {
                    let mut q = pat.to_vec();
                    let i = idx(p.a, q.len());
                    q[i] = flip_case(q[i]);
                    h.extend_from_slice(&q);
                }
            }
            7 if !pat.is_empty() => h.push(pat[0]),
            8 if !pat.is_empty() => h.push(pat[idx(p.a, pat.len())]),
            9 if pat.len() >= 2 => h.extend_from_slice(&pat[1 + idx(p.a, pat.len() - 1)..]),
            10 => {
                let n = idx(p.a, run_cap) + 1;
                let b = pick(alpha, p.b);
                h.extend(std::iter::repeat(b).take(n));
            }
            11 if !pat.is_empty() => {
                h.extend_from_slice(pat);
                h.extend_from_slice(pat);
            }
            _ => h.extend(map_bytes(alpha, &p.raw)),
        }
    }
    h
}

// ---------------------------------------------------------------- spans

#[derive(Clone, Copy, Debug)]
pub struct SpanRecipe {
    pub mode: u8,
    pub a: u16,
    pub b: u16,
}

pub fn span_recipe(full_only: bool) -> BoxedStrategy<SpanRecipe> {
    if full_only {
        Just(SpanRecipe { mode: 0, a: 0, b: 0 }).boxed()
    } else {
        (
            prop_oneof![
                45 => Just(0u8), // full
                47 => Just(1u8), // random sub-span
                5 => Just(2u8),  // empty span somewhere
                3 => Just(3u8),  // start = end + 1
            ],
            any::<u16>(),
            any::<u16>(),
        )
            .prop_map(|(mode, a, b)| SpanRecipe { mode, a, b })
            .boxed()
    }
}

pub fn realize_span(r: SpanRecipe, len: usize) -> (usize, usize) {
    match r.mode {
        0 => (0, len),
        1 => {
            let s = idx(r.a, len + 1);
            let e = s + idx(r.b, len - s + 1);
            (s, e)
        }
        2 => {
            let s = idx(r.a, len + 1);
            (s, s)
        }
        _ => {
            let e = idx(r.a, len + 1);
            (e + 1, e)
        }
    }
}

// ---------------------------------------------------------------- configs

#[derive(Clone, Debug)]
pub struct CfgOpts {
    pub engines: Vec<Engine>,
    pub mks: Vec<Mk>,
    pub sks: Vec<Sk>,
    /// 0 never, 1 sometimes (1/4), 2 always
    pub casei: u8,
    /// 0 never, 1 sometimes, 2 always (coerced to what the config supports)
    pub anchored: u8,
    pub prefilter_always: bool,
}

impl Default for CfgOpts {
    fn default() -> CfgOpts {
        CfgOpts {
            engines: Engine::ALL.to_vec(),
            mks: Mk::ALL.to_vec(),
            sks: Sk::ALL.to_vec(),
            casei: 1,
            anchored: 1,
            prefilter_always: false,
        }
    }
}

pub fn cfg_strategy(o: &CfgOpts) -> BoxedStrategy<(Cfg, bool)> {
    let casei = match o.casei {
        0 => Just(false).boxed(),
        1 => prop_oneof![3 => Just(false), 1 => Just(true)].boxed(),
        _ => Just(true).boxed(),
    };
    let anchored = match o.anchored {
        0 => Just(false).boxed(),
        1 => prop_oneof![2 => Just(false), 1 => Just(true)].boxed(),
        _ => Just(true).boxed(),
    };
    let prefilter = if o.prefilter_always {
        Just(true).boxed()
    } else {
        prop_oneof![3 => Just(true), 1 => Just(false)].boxed()
    };
    let must_anchor = o.anchored == 2;
    let never_anchor = o.anchored == 0;
    (
        proptest::sample::select(o.engines.clone()),
        proptest::sample::select(o.mks.clone()),
        proptest::sample::select(o.sks.clone()),
        prefilter,
        proptest::sample::select(vec![0i64, 1, 2, 3, 8, -1]),
        prop_oneof![3 => Just(true), 1 => Just(false)],
        casei,
        anchored,
    )
        .prop_map(move |(engine, mk, mut sk, prefilter, dense_depth, byte_classes, casei, want)| {
            if must_anchor && sk == Sk::Unanchored {
                sk = Sk::Both;
            }
            if never_anchor && sk == Sk::Anchored {
                sk = Sk::Unanchored;
            }
            let cfg = Cfg { engine, mk, sk, prefilter, dense_depth, byte_classes, casei };
            let anchored = if cfg.supports_anchored(want) { want } else { !want };
            (cfg, anchored)
        })
        .boxed()
}

// ---------------------------------------------------------------- search cases

#[derive(Clone, Debug)]
pub struct SearchOpts {
    pub prop: &'static str,
    pub cfg: CfgOpts,
    pub pats: PatOpts,
    pub hay: HayOpts,
    pub full_span_only: bool,
    pub alphabets: Vec<(u32, usize)>,
    /// drop empty patterns (stream search, packed)
    pub no_empty: bool,
}

pub fn default_alphabets() -> Vec<(u32, usize)> {
    vec![
        (30, ALPHA_AB),
        (25, ALPHA_ABCX),
        (12, ALPHA_CASE),
        (8, ALPHA_NYBBLE),
        (10, ALPHA_TEXT),
        (5, ALPHA_UTF8),
        (6, ALPHA_FULL),
        (4, ALPHA_HIGHCASE),
        (4, ALPHA_ONEHIGH),
        (4, ALPHA_EDGES),
    ]
}

pub fn alpha_strategy(w: &[(u32, usize)]) -> BoxedStrategy<usize> {
    proptest::strategy::Union::new_weighted(
        w.iter().map(|&(w, a)| (w, Just(a).boxed())).collect(),
    )
    .boxed()
}

pub fn strip_empty(pats: &mut Vec<Vec<u8>>, alpha: &[u8]) {
    pats.retain(|p| !p.is_empty());
    if pats.is_empty() {
        pats.push(vec![alpha[0]]);
    }
}

pub fn search_case(o: SearchOpts) -> BoxedStrategy<Case> {
    let size_class = o.hay.size_class;
    let no_empty = o.no_empty;
    let prop = o.prop;
    // about 1 case in 150: a haystack longer than 64 KiB (a long candidate-free
    // run, then occurrences around offset 65536) searched in memory
    let big = prop_oneof![
        149 => Just(None),
        1 => (any::<u16>(), any::<u16>(), any::<u8>(), any::<u16>()).prop_map(Some),
    ];
    (
        cfg_strategy(&o.cfg),
        alpha_strategy(&o.alphabets),
        pat_list(o.pats),
        hay_recipe(o.hay),
        span_recipe(o.full_span_only),
        big,
    )
        .prop_map(move |((cfg, anchored), ai, plist, pieces, sr, big)| {
            let alpha = alphabet(ai);
            let mut patterns = realize_patterns(&plist, &alpha);
            if no_empty {
                strip_empty(&mut patterns, &alpha);
            }
            let mut haystack = realize_haystack(&pieces, &patterns, &alpha, size_class);
            // keep the reference model affordable: (total pattern bytes) x
            // (haystack length) is bounded; very large pattern sets get
            // proportionally shorter haystacks (never below 48 bytes)
            let total: usize = patterns.iter().map(|p| p.len()).sum::<usize>().max(1);
            if total.saturating_mul(haystack.len()) > 6_000_000 {
                haystack.truncate((6_000_000 / total).max(48));
            }
            if haystack.len() > 50_000 {
                haystack.truncate(50_000);
            }
            let mut is_big = false;
            if let Some((which, back, fill, tail)) = big {
                if !patterns.is_empty() && total <= 2_000 && patterns.iter().any(|p| !p.is_empty()) {
                    patterns.truncate(8);
                    haystack = big_stream(&patterns, which, back, fill, tail);
                    is_big = true;
                }
            }
            let span = realize_span(sr, haystack.len());
            let sub = match plist {
                PatList::General(_) => "general",
                PatList::Single(_) => "single",
                PatList::StartBytes { .. } => "startbytes",
                PatList::RareBytes { .. } => "rarebytes",
                PatList::Packedish(_) => "packedish",
                PatList::Adversarial { .. } => "adversarial",
                PatList::Fanout { .. } => "fanout",
                PatList::MidPacked { .. } => "midpacked",
                PatList::LongNested { .. } => "longnested",
                PatList::ManyThenOdd { .. } => "manythenodd",
                PatList::DeepNested { .. } => "deepnested",
                PatList::Utf8Starts { .. } => "utf8starts",
            };
            let sub = if is_big { format!("{}+big-haystack", sub) } else { sub.to_string() };
            Case {
                prop: prop.to_string(),
                sub,
                cfg,
                patterns,
                haystack,
                span,
                anchored,
                ..Case::default()
            }
        })
        .boxed()
}

/// A stream longer than the default 64 KiB roll buffer with a pattern placed
/// so that it straddles the first refill boundary (offset 65536), for
/// exercising the roll path at the real default capacity.
pub fn big_stream(patterns: &[Vec<u8>], which: u16, back: u16, fill: u8, tail: u16) -> Vec<u8> {
    let n = patterns.len().max(1);
    let empty = Vec::new();
    let p = patterns.get(idx(which, n)).unwrap_or(&empty);
    let mut f = fill;
    for d in 0..=255u8 {
        let c = fill.wrapping_add(d);
        // a byte that occurs in no pattern at all (neither a first byte nor a
        // rare byte), if there is one
        if patterns.iter().all(|q| !q.contains(&c)) {
            f = c;
            break;
        }
    }
    let back = if p.len() >= 2 { 1 + idx(back, p.len() - 1) } else { 0 };
    let mut h = vec![f; 65536 - back];
    h.extend_from_slice(p);
    h.extend(std::iter::repeat(f).take(tail as usize % 3000));
    h.extend_from_slice(p);
    if let Some(q) = patterns.get(idx(which.rotate_left(5), n)) {
        h.extend_from_slice(q);
    }
    h.push(f);
    h
}
