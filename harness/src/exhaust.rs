//! Bounded-exhaustive enumeration (no RNG): all ordered pattern lists of at
//! most P patterns of length at most L over a small alphabet (including the
//! empty pattern), all haystacks of length at most H, all spans.

use crate::case::{Case, Cfg};
use crate::engine::Searcher;
use crate::runner::{Ctx, Violation, WORKERS};

pub fn all_strings(alpha: &[u8], max_len: usize) -> Vec<Vec<u8>> {
    let mut out = vec![Vec::new()];
    let mut frontier = vec![Vec::new()];
    for _ in 0..max_len {
        let mut next = Vec::new();
        for s in &frontier {
            for &c in alpha {
                let mut t: Vec<u8> = s.clone();
                t.push(c);
                next.push(t);
            }
        }
        out.extend(next.iter().cloned());
        frontier = next;
    }
    out
}

pub fn all_lists(strings: &[Vec<u8>], max_pats: usize, min_pats: usize) -> Vec<Vec<Vec<u8>>> {
    let mut out = Vec::new();
    let mut frontier: Vec<Vec<Vec<u8>>> = vec![Vec::new()];
    if min_pats == 0 {
        out.push(Vec::new());
    }
    for n in 1..=max_pats {
        let mut next = Vec::new();
        for l in &frontier {
            for s in strings {
                let mut m = l.clone();
                m.push(s.clone());
                next.push(m);
            }
        }
        if n >= min_pats {
            out.extend(next.iter().cloned());
        }
        frontier = next;
    }
    out
}

pub fn all_spans(len: usize, degenerate: bool) -> Vec<(usize, usize)> {
    let mut v = Vec::new();
    for s in 0..=len {
        for e in s..=len {
            v.push((s, e));
        }
    }
    if degenerate {
        for e in 0..=len {
            v.push((e + 1, e));
        }
    }
    v
}

pub struct Scope {
    pub prop: &'static str,
    pub alpha: Vec<u8>,
    pub max_pats: usize,
    pub max_pat_len: usize,
    pub max_hay_len: usize,
    pub cfgs: Vec<Cfg>,
    pub anchored: Vec<bool>,
    pub no_empty: bool,
    pub full_span_only: bool,
}

pub type BuiltCheck = fn(&Searcher, &Case, &mut Ctx) -> Result<(), String>;

/// Enumerate the scope in parallel; every (cfg, pattern list) is built once
/// and every (haystack, span, anchoring) is run through `check`.
pub fn run_scope(scope: &Scope, check: BuiltCheck, total: &mut Ctx) -> Result<(), Violation> {
    let mut strings = all_strings(&scope.alpha, scope.max_pat_len);
    if scope.no_empty {
        strings.retain(|s| !s.is_empty());
    }
    let lists = all_lists(&strings, scope.max_pats, if scope.no_empty { 1 } else { 0 });
    let hays = all_strings(&scope.alpha, scope.max_hay_len);
    let chunk = (lists.len() + WORKERS as usize - 1) / WORKERS as usize;
    let results: Vec<(Ctx, Option<Violation>)> = std::thread::scope(|s| {
        let hs: Vec<_> = lists
            .chunks(chunk.max(1))
            .map(|part| {
                let hays = &hays;
                s.spawn(move || {
                    let mut ctx = Ctx::default();
                    for list in part {
                        for cfg in &scope.cfgs {
                            let searcher = match Searcher::build(cfg, list) {
                                Ok(s) => s,
                                Err(e) => {
                                    let case = Case {
                                        prop: scope.prop.to_string(),
                                        sub: "exhaustive".into(),
                                        cfg: cfg.clone(),
                                        patterns: list.clone(),
                                        ..Case::default()
                                    };
                                    return (ctx, Some(Violation { case, reason: e }));
                                }
                            };
                            for hay in hays.iter() {
                                let spans = if scope.full_span_only {
                                    vec![(0, hay.len())]
                                } else {
                                    all_spans(hay.len(), true)
                                };
                                for &span in &spans {
                                    for &anchored in &scope.anchored {
                                        if !cfg.supports_anchored(anchored) {
                                            continue;
                                        }
                                        let case = Case {
                                            prop: scope.prop.to_string(),
                                            sub: "exhaustive".into(),
                                            cfg: cfg.clone(),
                                            patterns: list.clone(),
                                            haystack: hay.clone(),
                                            span,
                                            anchored,
                                            ..Case::default()
                                        };
                                        ctx.begin();
                                        let r = crate::engine::guard(|| check(&searcher, &case, &mut ctx));
                                        ctx.end(&case);
                                        ctx.enumerated += 1;
                                        let r = match r {
                                            Ok(r) => r,
                                            Err(p) => Err(format!("panicked: {}", p)),
                                        };
                                        if let Err(reason) = r {
                                            return (ctx, Some(Violation { case, reason }));
                                        }
                                    }
                                }
                            }
                        }
                    }
                    (ctx, None)
                })
            })
            .collect();
        hs.into_iter().map(|h| h.join().expect("enum worker")).collect()
    });
    let mut violation = None;
    for (ctx, v) in results {
        total.merge(ctx);
        if violation.is_none() {
            violation = v;
        }
    }
    match violation {
        None => Ok(()),
        Some(v) => Err(v),
    }
}
