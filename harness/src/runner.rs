//! Drives a property: regression replays, enumerated sub-runs, the random
//! (proptest) tier on 16 fixed workers, evidence and replay files.

use std::collections::{BTreeMap, HashSet};
use std::path::{Path, PathBuf};
use std::time::Instant;

use proptest::strategy::{BoxedStrategy, Strategy, ValueTree};
use proptest::test_runner::{
    Config, RngAlgorithm, TestCaseError, TestError, TestRng, TestRunner,
};
use serde_json::json;

use crate::case::Case;

pub const WORKERS: u64 = 16;

/// Set once a worker has finished shrinking a violation; the others stop.
static STOP: std::sync::atomic::AtomicBool = std::sync::atomic::AtomicBool::new(false);

#[derive(Clone, Copy, Debug, PartialEq, Eq)]
pub enum Tier {
    Quick,
    Thorough,
}

impl Tier {
    pub fn name(self) -> &'static str {
        match self {
            Tier::Quick => "quick",
            Tier::Thorough => "thorough",
        }
    }
}

/// Per-worker statistics. Checks record coverage classes and whether the
/// current case is non-trivial by the property's stated rule.
#[derive(Default)]
pub struct Ctx {
    pub evals: u64,
    pub nontrivial: HashSet<u64>,
    pub classes: BTreeMap<String, u64>,
    pub samples: Vec<serde_json::Value>,
    pub frozen: bool,
    pub excluded_known: u64,
    cur_nontrivial: bool,
    /// arbitrary integer counters (states explored, faults injected, ...)
    pub counters: BTreeMap<String, u64>,
    /// number of enumerated (exhaustive) evaluations included in `evals`
    pub enumerated: u64,
}

impl Ctx {
    pub fn class(&mut self, name: &str) {
        if !self.frozen {
            *self.classes.entry(name.to_string()).or_insert(0) += 1;
        }
    }
    pub fn count(&mut self, name: &str, n: u64) {
        if !self.frozen {
            *self.counters.entry(name.to_string()).or_insert(0) += n;
        }
    }
    pub fn nontrivial(&mut self) {
        self.cur_nontrivial = true;
    }
    /// Called by the runner around every check.
    pub fn begin(&mut self) {
        self.cur_nontrivial = false;
    }
    pub fn end(&mut self, case: &Case) {
        if self.frozen {
            return;
        }
        self.evals += 1;
        if self.cur_nontrivial {
            let fp = case.fingerprint();
            if self.nontrivial.insert(fp) && self.samples.len() < 4 {
                let s = case.to_sample();
                if self.sample_ok(&s) {
                    self.samples.push(s);
                }
            }
        }
    }
    /// At most two samples come from enumerated / scenario sub-runs so that
    /// the random tier is represented among the samples too.
    fn sample_ok(&self, s: &serde_json::Value) -> bool {
        let is_enum = |v: &serde_json::Value| {
            v["sub"].as_str().map_or(false, |x| {
                ["exhaustive", "sweep", "cell", "long-pattern", "scenario", "hammer", "regression", "many-patterns"].iter().any(|p| x.starts_with(p))
            })
        };
        !is_enum(s) || self.samples.iter().filter(|x| is_enum(x)).count() < 2
    }

    pub fn merge(&mut self, other: Ctx) {
        self.evals += other.evals;
        self.enumerated += other.enumerated;
        self.excluded_known += other.excluded_known;
        self.nontrivial.extend(other.nontrivial);
        for (k, v) in other.classes {
            *self.classes.entry(k).or_insert(0) += v;
        }
        for (k, v) in other.counters {
            *self.counters.entry(k).or_insert(0) += v;
        }
        for s in other.samples {
            if self.samples.len() < 8 && self.sample_ok(&s) {
                self.samples.push(s);
            }
        }
    }
}

pub type CheckFn = fn(&Case, &mut Ctx) -> Result<(), String>;

/// A violation: the (minimal) failing case and the reason.
pub struct Violation {
    pub case: Case,
    pub reason: String,
}

pub struct PropDef {
    pub id: &'static str,
    pub rule: &'static str,
    pub assumptions: &'static [&'static str],
    pub cases_quick: u64,
    pub cases_thorough: u64,
    pub strategy: fn(Tier) -> BoxedStrategy<Case>,
    pub check: CheckFn,
    /// Enumerated / special sub-runs executed before the random tier.
    /// Returns whether the enumerated space was covered completely.
    pub extra: Option<fn(Tier, u64, &mut Ctx) -> Result<bool, Violation>>,
    /// class name -> minimum count expected in the quick tier (coverage
    /// floors; falling below prints COVERAGE-WARNING, never a violation)
    pub floors: &'static [(&'static str, u64)],
}

pub fn run_check(
    check: CheckFn,
    case: &Case,
    ctx: &mut Ctx,
) -> Result<(), String> {
    ctx.begin();
    let r = match crate::engine::guard(|| check(case, ctx)) {
        Ok(r) => r,
        Err(p) => Err(format!("harness or library panicked outside a guarded call: {}", p)),
    };
    ctx.end(case);
    r
}

fn fnv(parts: &[&[u8]]) -> [u8; 32] {
    let mut out = [0u8; 32];
    for k in 0..4u8 {
        let mut h: u64 = 0xcbf29ce484222325 ^ (k as u64).wrapping_mul(0x9e3779b97f4a7c15);
        for p in parts {
            for &b in *p {
                h ^= b as u64;
                h = h.wrapping_mul(0x100000001b3);
            }
            h ^= 0xff;
            h = h.wrapping_mul(0x100000001b3);
        }
        out[k as usize * 8..][..8].copy_from_slice(&h.to_le_bytes());
    }
    out
}

pub fn worker_rng(seed: u64, id: &str, worker: u64) -> TestRng {
    let s = fnv(&[&seed.to_le_bytes(), id.as_bytes(), &worker.to_le_bytes()]);
    TestRng::from_seed(RngAlgorithm::ChaCha, &s)
}

/// Run `cases` generated cases of `strategy` through `check` on one worker.
pub fn run_worker(
    def: &PropDef,
    tier: Tier,
    seed: u64,
    worker: u64,
    cases: u64,
) -> (Ctx, Option<Violation>) {
    let mut ctx = Ctx::default();
    let config = Config {
        cases: cases as u32,
        failure_persistence: None,
        max_shrink_iters: 3_000,
        // safety cap only: affects how small the reported case gets, never the verdict
        max_shrink_time: 30_000,
        verbose: 0,
        ..Config::default()
    };
    let mut runner =
        TestRunner::new_with_rng(config, worker_rng(seed, def.id, worker));
    let strategy = (def.strategy)(tier);
    let check = def.check;
    let cell = std::cell::RefCell::new(&mut ctx);
    let slow_ms: Option<u64> = std::env::var("VERIF_SLOW_MS").ok().and_then(|v| v.parse().ok());
    let result = runner.run(&strategy, |case| {
        let mut guard = cell.borrow_mut();
        let ctx: &mut Ctx = &mut **guard;
        // another worker already holds a (shrunk) violation: stop exploring
        if !ctx.frozen && STOP.load(std::sync::atomic::Ordering::Relaxed) {
            return Ok(());
        }
        let t_case = Instant::now();
        let r = run_check(check, &case, ctx);
        // diagnostics only (VERIF_SLOW_MS=n): report cases slower than n ms
        if let Some(limit) = slow_ms {
            let ms = t_case.elapsed().as_millis() as u64;
            if ms >= limit {
                let plen: usize = case.patterns.iter().map(|p| p.len()).sum();
                eprintln!("SLOW {} ms worker {} sub={} cfg={:?} patterns={} pattern_bytes={} haystack={} span={:?}", ms, worker, case.sub, case.cfg, case.patterns.len(), plen, case.haystack.len(), case.span);
            }
        }
        match r {
            Ok(()) => Ok(()),
            Err(reason) => {
                ctx.frozen = true;
                Err(TestCaseError::fail(reason))
            }
        }
    });
    drop(cell);
    let violation = match result {
        Ok(()) => None,
        Err(TestError::Fail(reason, case)) => {
            STOP.store(true, std::sync::atomic::Ordering::Relaxed);
            Some(Violation { case, reason: reason.message().to_string() })
        }
        Err(TestError::Abort(reason)) => {
            // Only happens on too many global rejects; we never reject.
            eprintln!("INCONCLUSIVE worker {} aborted: {}", worker, reason);
            None
        }
    };
    (ctx, violation)
}

/// Generate `n` cases from a strategy without checking (used for corpus
/// generation and for special drivers that need generated inputs).
pub fn sample_cases(
    strategy: &BoxedStrategy<Case>,
    seed: u64,
    id: &str,
    worker: u64,
    n: usize,
) -> Vec<Case> {
    let mut runner = TestRunner::new_with_rng(
        Config { failure_persistence: None, ..Config::default() },
        worker_rng(seed, id, worker),
    );
    (0..n)
        .filter_map(|_| strategy.new_tree(&mut runner).ok())
        .map(|t| t.current())
        .collect()
}

pub fn verif_root() -> PathBuf {
    std::env::var("VERIF_ROOT").map(PathBuf::from).unwrap_or_else(|_| PathBuf::from("/verif"))
}

pub fn write_replay(id: &str, v: &Violation) -> PathBuf {
    let dir = verif_root().join("replays");
    let _ = std::fs::create_dir_all(&dir);
    let mut case = v.case.clone();
    case.note = v.reason.clone();
    let path = dir.join(format!("{}-{:016x}.json", id, case.fingerprint()));
    let _ = std::fs::write(
        &path,
        serde_json::to_string_pretty(&case.to_json()).unwrap(),
    );
    path
}

/// Known findings: lines `known: property=<id> signature=<sig> <text>` in
/// /verif/KNOWN_FINDINGS.txt. `fixed:` lines suppress nothing.
pub struct Known {
    pub entries: Vec<(String, String)>, // (signature, text)
}

impl Known {
    pub fn load(id: &str) -> Known {
        let mut entries = Vec::new();
        let path = verif_root().join("KNOWN_FINDINGS.txt");
        if let Ok(s) = std::fs::read_to_string(path) {
            for line in s.lines() {
                let line = line.trim();
                if !line.starts_with("known:") {
                    continue;
                }
                if !line.contains(&format!("property={}", id)) {
                    continue;
                }
                let sig = line
                    .split_whitespace()
                    .find_map(|w| w.strip_prefix("signature="))
                    .unwrap_or("")
                    .to_string();
                entries.push((sig, line.to_string()));
            }
        }
        Known { entries }
    }
}

pub struct RunResult {
    pub violation: Option<(Violation, PathBuf)>,
}

pub fn regressions_for(id: &str) -> Vec<(PathBuf, Case)> {
    let dir = verif_root().join("regressions");
    let mut out = Vec::new();
    if let Ok(rd) = std::fs::read_dir(&dir) {
        let mut paths: Vec<PathBuf> = rd.filter_map(|e| e.ok()).map(|e| e.path()).collect();
        paths.sort();
        for p in paths {
            let name = p.file_name().unwrap().to_string_lossy().to_string();
            if !name.starts_with(id) || !name.ends_with(".json") {
                continue;
            }
            match std::fs::read_to_string(&p).map_err(|e| e.to_string()).and_then(|s| Case::from_json_str(&s)) {
                Ok(c) => out.push((p, c)),
                Err(e) => eprintln!("WARNING: cannot parse regression {}: {}", p.display(), e),
            }
        }
    }
    out
}

pub fn run_property(def: &'static PropDef, tier: Tier, seed: u64) -> i32 {
    let t0 = Instant::now();
    let known = Known::load(def.id);
    for (_, text) in &known.entries {
        println!("KNOWN-FINDING: {}", text.trim_start_matches("known:").trim());
    }
    let mut total = Ctx::default();
    let mut violation: Option<(Violation, PathBuf)> = None;
    let mut exhaustive_done = false;

    // 1. regression replays (shrunk inputs of confirmed defects)
    let regs = regressions_for(def.id);
    let mut reg_count = 0u64;
    for (path, case) in &regs {
        reg_count += 1;
        if let Err(reason) = run_check(def.check, case, &mut total) {
            violation = Some((
                Violation { case: case.clone(), reason },
                path.clone(),
            ));
            break;
        }
    }
    total.count("regression_replays", reg_count);

    // 2. enumerated / special sub-runs
    if violation.is_none() {
        if let Some(extra) = def.extra {
            match crate::engine::guard(|| extra(tier, seed, &mut total)) {
                Ok(Ok(complete)) => exhaustive_done = complete,
                Ok(Err(v)) => {
                    let p = write_replay(def.id, &v);
                    violation = Some((v, p));
                }
                Err(p) => {
                    println!("INCONCLUSIVE property={} harness panicked in the enumerated sub-run: {}", def.id, p);
                    return 2;
                }
            }
        }
    }

    // 3. random tier
    let cases = match tier {
        Tier::Quick => def.cases_quick,
        Tier::Thorough => def.cases_thorough,
    };
    let scale: f64 = std::env::var("VERIF_SCALE").ok().and_then(|s| s.parse().ok()).unwrap_or(1.0);
    let cases = ((cases as f64) * scale) as u64;
    if violation.is_none() && cases > 0 {
        let per = (cases + WORKERS - 1) / WORKERS;
        // Workers report over a channel. When one of them holds a (shrunk)
        // violation the others are given a grace period only: code that
        // breaks a property can also make some other case loop for ever
        // inside the library (e.g. a cyclic failure chain during a build),
        // and a violation in hand must not be turned into a hang by that.
        let (tx, rx) = std::sync::mpsc::channel::<(Ctx, Option<Violation>)>();
        for w in 0..WORKERS {
            let tx = tx.clone();
            std::thread::Builder::new()
                .stack_size(64 << 20)
                .spawn(move || {
                    let r = std::panic::catch_unwind(std::panic::AssertUnwindSafe(|| run_worker(def, tier, seed, w, per)));
                    let r = r.unwrap_or_else(|_| {
                        let mut c = Ctx::default();
                        c.count("worker_panicked", 1);
                        (c, None)
                    });
                    let _ = tx.send(r);
                })
                .unwrap();
        }
        drop(tx);
        let mut results: Vec<(Ctx, Option<Violation>)> = Vec::new();
        let mut deadline: Option<Instant> = None;
        while results.len() < WORKERS as usize {
            let got = match deadline {
                None => rx.recv().map_err(|_| ()),
                Some(d) => rx.recv_timeout(d.saturating_duration_since(Instant::now())).map_err(|_| ()),
            };
            match got {
                Ok(r) => {
                    if r.1.is_some() && deadline.is_none() {
                        deadline = Some(Instant::now() + std::time::Duration::from_secs(45));
                    }
                    results.push(r);
                }
                Err(()) => {
                    if deadline.is_some() {
                        println!("NOTE property={} {} worker(s) did not finish within 45 s after a violation was found (abandoned; their counts are missing from the evidence)", def.id, WORKERS as usize - results.len());
                    }
                    break;
                }
            }
        }
        if results.iter().any(|(c, _)| c.counters.contains_key("worker_panicked")) {
            println!("INCONCLUSIVE property={} a harness worker panicked outside a check (set VERIF_PANIC_TRACE=1)", def.id);
            return 2;
        }
        for (ctx, v) in results {
            total.merge(ctx);
            if violation.is_none() {
                if let Some(v) = v {
                    let p = write_replay(def.id, &v);
                    violation = Some((v, p));
                }
            }
        }
    }

    // coverage floors (quick tier sized); warnings only
    let mut warnings = Vec::new();
    if violation.is_none() {
        for (name, floor) in def.floors {
            let have = total.classes.get(*name).copied().unwrap_or(0);
            let floor = ((*floor as f64) * scale.min(1.0)) as u64;
            if have < floor {
                let w = format!("class {} count {} below floor {}", name, have, floor);
                println!("COVERAGE-WARNING property={} {}", def.id, w);
                warnings.push(w);
            }
        }
    }

    let wall = t0.elapsed().as_secs_f64();
    write_evidence(def, tier, seed, &total, exhaustive_done, wall, violation.is_some(), &warnings, None);
    println!(
        "property={} tier={} seed={} evaluations={} distinct_nontrivial={} wall_s={:.1}",
        def.id, tier.name(), seed, total.evals, total.nontrivial.len(), wall
    );
    match violation {
        None => 0,
        Some((v, path)) => {
            println!("reason: {}", v.reason);
            println!("case: {}", serde_json::to_string(&v.case.to_sample()).unwrap());
            println!("VIOLATION property={} replay={}", def.id, path.display());
            1
        }
    }
}

#[allow(clippy::too_many_arguments)]
pub fn write_evidence(
    def: &PropDef,
    tier: Tier,
    seed: u64,
    total: &Ctx,
    exhaustive_done: bool,
    wall: f64,
    violated: bool,
    warnings: &[String],
    fuzz: Option<serde_json::Value>,
) {
    let dir = verif_root().join("evidence");
    let _ = std::fs::create_dir_all(&dir);
    let path = dir.join(format!("{}.json", def.id));
    // Merge with a fuzz block written earlier in the same invocation, if any.
    let mut coverage = json!({
        "evaluations": total.evals,
        "distinct_nontrivial": total.nontrivial.len(),
        "rule": def.rule,
        "samples": total.samples,
        "classes": total.classes,
        "counters": total.counters,
        "enumerated_evaluations": total.enumerated,
        "exhaustive": false,
        "exhaustive_subrun_complete": exhaustive_done,
        "excluded_known": total.excluded_known,
        "coverage_warnings": warnings,
        "workers": WORKERS,
    });
    if let Some(f) = fuzz {
        coverage["fuzz"] = f;
    }
    let ev = json!({
        "property_id": def.id,
        "tier": tier.name(),
        "seed": seed,
        "level": if def.id == "C18" { "fault_enumeration" } else { "exploration" },
        "coverage": coverage,
        "assumptions": def.assumptions,
        "wall_s": wall,
        "violations": if violated { 1 } else { 0 },
    });
    let _ = std::fs::write(&path, serde_json::to_string_pretty(&ev).unwrap());
}

pub fn replay_file(def: &PropDef, path: &Path) -> i32 {
    let s = match std::fs::read_to_string(path) {
        Ok(s) => s,
        Err(e) => {
            eprintln!("cannot read {}: {}", path.display(), e);
            return 2;
        }
    };
    let case = match Case::from_json_str(&s) {
        Ok(c) => c,
        Err(e) => {
            eprintln!("cannot parse {}: {}", path.display(), e);
            return 2;
        }
    };
    let mut ctx = Ctx::default();
    match run_check(def.check, &case, &mut ctx) {
        Ok(()) => {
            println!("replay property={} held on {}", def.id, path.display());
            0
        }
        Err(reason) => {
            println!("reason: {}", reason);
            println!("VIOLATION property={} replay={}", def.id, path.display());
            1
        }
    }
}
