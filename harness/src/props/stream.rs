//! C07 (stream find == in-memory find for every chunking), C08 (stream
//! replacement), C18 (I/O failures surface as errors, outputs stay prefixes).

use std::io::{self, Read, Write};

use aho_corasick::verif;
use proptest::prelude::*;
use proptest::strategy::{BoxedStrategy, Union};

use crate::case::{Case, Fault, Mk, Sk};
use crate::engine::{guard, to_m, Searcher};
use crate::gen::{self, CfgOpts, HayOpts, PatOpts, SearchOpts};
use crate::model::{self, Occ, M};
use crate::runner::{Ctx, PropDef, Tier};
use crate::sem;

pub const READ_FAULT: io::ErrorKind = io::ErrorKind::ConnectionReset;
pub const WRITE_FAULT: io::ErrorKind = io::ErrorKind::BrokenPipe;
pub const CLOSURE_FAULT: io::ErrorKind = io::ErrorKind::PermissionDenied;
/// Error kinds injected into the reader (chosen by fault position).
pub const READ_KINDS: [io::ErrorKind; 5] = [
    READ_FAULT,
    io::ErrorKind::Interrupted,
    io::ErrorKind::UnexpectedEof,
    io::ErrorKind::WouldBlock,
    io::ErrorKind::Other,
];

/// A reader that follows a schedule: read sizes (cycled), mandatory cut
/// offsets (a read never crosses one), and an optional injected failure at
/// the k-th call. It records where each read ended.
pub struct SchedReader<'a> {
    data: &'a [u8],
    pos: usize,
    sizes: &'a [usize],
    cuts: &'a [usize],
    pub calls: usize,
    fail_at: Option<usize>,
    fail_kind: io::ErrorKind,
    pub boundaries: Vec<usize>,
    pub eof_returned: bool,
}

impl<'a> SchedReader<'a> {
    pub fn new(data: &'a [u8], sizes: &'a [usize], cuts: &'a [usize], fail_at: Option<usize>) -> SchedReader<'a> {
        SchedReader { data, pos: 0, sizes, cuts, calls: 0, fail_at, fail_kind: READ_FAULT, boundaries: Vec::new(), eof_returned: false }
    }
    pub fn with_kind(mut self, kind: io::ErrorKind) -> SchedReader<'a> {
        self.fail_kind = kind;
        self
    }
}

impl<'a> Read for SchedReader<'a> {
    fn read(&mut self, buf: &mut [u8]) -> io::Result<usize> {
        self.calls += 1;
        if self.fail_at == Some(self.calls) {
            return Err(io::Error::new(self.fail_kind, "injected read fault"));
        }
        let remaining = self.data.len() - self.pos;
        let mut n = remaining.min(buf.len());
        if !self.sizes.is_empty() {
            let want = self.sizes[(self.calls - 1) % self.sizes.len()].max(1);
            n = n.min(want);
        }
        if let Some(&c) = self.cuts.iter().filter(|&&c| c > self.pos).min() {
            n = n.min(c - self.pos);
        }
        buf[..n].copy_from_slice(&self.data[self.pos..self.pos + n]);
        self.pos += n;
        if n == 0 {
            self.eof_returned = true;
        } else {
            self.boundaries.push(self.pos);
        }
        Ok(n)
    }
}

/// A writer that records everything, optionally accepting at most `chunk`
/// bytes per call, failing at the k-th call, or after `n` accepted bytes.
pub struct SchedWriter {
    pub out: Vec<u8>,
    pub calls: usize,
    chunk: Option<usize>,
    fail_at_call: Option<usize>,
    fail_after_bytes: Option<usize>,
    /// when the byte limit is reached: report Ok(0) instead of an error
    full_sink: bool,
}

impl SchedWriter {
    pub fn new(chunk: Option<usize>, fault: &Option<Fault>) -> SchedWriter {
        let (fail_at_call, fail_after_bytes) = match fault {
            Some(Fault::Write { k }) => (Some(*k), None),
            Some(Fault::WriteAfterBytes { n }) => (None, Some(*n)),
            Some(Fault::WriteFullAfterBytes { n }) => (None, Some(*n)),
            _ => (None, None),
        };
        let full_sink = matches!(fault, Some(Fault::WriteFullAfterBytes { .. }));
        SchedWriter { out: Vec::new(), calls: 0, chunk, fail_at_call, fail_after_bytes, full_sink }
    }
}

impl Write for SchedWriter {
    fn write(&mut self, buf: &[u8]) -> io::Result<usize> {
        self.calls += 1;
        if self.fail_at_call == Some(self.calls) {
            return Err(io::Error::new(WRITE_FAULT, "injected write fault"));
        }
        let mut n = buf.len();
        if let Some(c) = self.chunk {
            n = n.min(c.max(1));
        }
        if let Some(limit) = self.fail_after_bytes {
            let room = limit.saturating_sub(self.out.len());
            if room == 0 && !buf.is_empty() {
                if self.full_sink {
                    return Ok(0);
                }
                return Err(io::Error::new(WRITE_FAULT, "injected write fault"));
            }
            n = n.min(room);
        }
        self.out.extend_from_slice(&buf[..n]);
        Ok(n)
    }
    fn flush(&mut self) -> io::Result<()> {
        Ok(())
    }
}

struct SpareGuard;
impl SpareGuard {
    fn set(spare: Option<usize>) -> SpareGuard {
        verif::set_buffer_spare(spare);
        verif::reset();
        SpareGuard
    }
}
impl Drop for SpareGuard {
    fn drop(&mut self) {
        verif::set_buffer_spare(None);
    }
}

fn cuts_of(case: &Case) -> Vec<usize> {
    case.params.iter().filter(|&&c| c > 0).map(|&c| c as usize).collect()
}

fn sound(case: &Case) -> Result<(), String> {
    if case.cfg.mk != Mk::Standard || case.patterns.is_empty() || case.patterns.iter().any(|p| p.is_empty()) || !case.cfg.supports_anchored(false) {
        return Err("unsound stream case (needs standard kind, non-empty patterns, unanchored support)".into());
    }
    Ok(())
}

pub struct StreamRun {
    pub items: Vec<Result<M, io::ErrorKind>>,
    pub read_calls: usize,
    pub boundaries: Vec<usize>,
    pub rolls: u64,
    pub eof_returned: bool,
}

/// Run stream_find_iter, stopping at the first error item.
pub fn run_stream_find(s: &Searcher, case: &Case, fail_at: Option<usize>) -> Result<StreamRun, String> {
    run_stream_find_kind(s, case, fail_at, READ_FAULT)
}

pub fn run_stream_find_kind(s: &Searcher, case: &Case, fail_at: Option<usize>, kind: io::ErrorKind) -> Result<StreamRun, String> {
    let cuts = cuts_of(case);
    let _g = SpareGuard::set(case.spare);
    let mut rdr = SchedReader::new(&case.haystack, &case.reads, &cuts, fail_at).with_kind(kind);
    let r = guard(|| -> Result<Vec<Result<M, io::ErrorKind>>, String> {
        let mut items = Vec::new();
        macro_rules! drive {
            ($a:expr) => {{
                let it = $a.try_stream_find_iter(&mut rdr).map_err(|e| format!("stream_find_iter: supported request returned Err({})", e))?;
                for item in it {
                    match item {
                        Ok(m) => items.push(Ok(to_m(m))),
                        Err(e) => {
                            items.push(Err(e.kind()));
                            break;
                        }
                    }
                    if items.len() > case.haystack.len() + 8 {
                        return Err("stream_find_iter yields more items than stream bytes".to_string());
                    }
                }
            }};
        }
        use aho_corasick::automaton::Automaton;
        // low-level automata: directly, or (every other call) through the
        // blanket `impl Automaton for &A`
        let by_ref = crate::engine::by_ref_toggle();
        match s {
            Searcher::Top(a) => drive!(a),
            Searcher::Nc(a) if by_ref => {
                let a = &a;
                drive!(a)
            }
            Searcher::C(a) if by_ref => {
                let a = &a;
                drive!(a)
            }
            Searcher::D(a) if by_ref => {
                let a = &a;
                drive!(a)
            }
            Searcher::Nc(a) => drive!(a),
            Searcher::C(a) => drive!(a),
            Searcher::D(a) => drive!(a),
        }
        Ok(items)
    });
    let rolls = verif::counters().rolls;
    let items = r.map_err(|p| format!("stream_find_iter panicked: {}", p))??;
    Ok(StreamRun { items, read_calls: rdr.calls, boundaries: rdr.boundaries.clone(), rolls, eof_returned: rdr.eof_returned })
}

fn expected_matches(case: &Case) -> Vec<M> {
    let occ = Occ::new(&case.patterns, &case.haystack, case.cfg.casei);
    occ.iter(Mk::Standard, 0, case.haystack.len(), false)
}

fn stream_classes(case: &Case, run: &StreamRun, expect: &[M], ctx: &mut Ctx) -> bool {
    ctx.class(sem::engine_class(case.cfg.engine));
    ctx.class(&format!("gen:{}", case.sub));
    ctx.class(&match case.spare {
        None => "spare:default".to_string(),
        Some(s) => format!("spare:{}", s),
    });
    if run.rolls > 0 {
        ctx.class("buffer-rolled");
    }
    ctx.count("rolls", run.rolls);
    ctx.count("read_calls", run.read_calls as u64);
    let spans_reads = expect.iter().any(|m| run.boundaries.iter().any(|&b| m.start < b && b < m.end));
    if spans_reads {
        ctx.class("match-spans-two-reads");
    }
    if case.reads.iter().any(|&r| r == 1) {
        ctx.class("single-byte-reads");
    }
    if !case.params.is_empty() {
        ctx.class("cuts-around-matches");
    }
    if case.spare.is_none() && case.haystack.len() > 65536 && run.rolls > 1 {
        ctx.class("rolled-at-default-capacity");
    }
    if case.cfg.casei {
        ctx.class("casei");
    }
    run.rolls > 0 && spans_reads
}

// ------------------------------------------------------------------ C07

fn c07_check(case: &Case, ctx: &mut Ctx) -> Result<(), String> {
    if case.sub.starts_with("long-pattern:") {
        return replay_long_scenario(case, false);
    }
    sound(case)?;
    let s = Searcher::build(&case.cfg, &case.patterns)?;
    let expect = expected_matches(case);
    let run = run_stream_find(&s, case, None)?;
    let mut got = Vec::new();
    for it in &run.items {
        match it {
            Ok(m) => got.push(*m),
            Err(k) => return Err(format!("stream_find_iter yielded an I/O error {:?} although the reader never failed", k)),
        }
    }
    for m in &got {
        sem::post_conditions("stream_find_iter", *m, case.patterns.len(), case.haystack.len(), (0, case.haystack.len()))?;
    }
    if got != expect {
        let k = got.iter().zip(expect.iter()).take_while(|(a, b)| a == b).count();
        return Err(format!(
            "stream_find_iter: sequences differ at index {}: expected {:?}, got {:?} (lens {} vs {}); read boundaries {:?}",
            k,
            expect.get(k),
            got.get(k),
            expect.len(),
            got.len(),
            &run.boundaries[..run.boundaries.len().min(40)]
        ));
    }
    // the in-memory iterator of the same searcher agrees (absolute offsets)
    let mem = guard(|| s.try_find_iter(aho_corasick::Input::new(&case.haystack)))
        .map_err(|p| format!("find_iter panicked: {}", p))?
        .map_err(|e| format!("find_iter: Err({})", e))?;
    if mem != got {
        return Err(format!("stream matches {:?} differ from in-memory find_iter {:?}", got, mem));
    }
    if !run.eof_returned {
        return Err("iterator ended before the reader reported end of stream".into());
    }
    if stream_classes(case, &run, &expect, ctx) {
        ctx.nontrivial();
    }
    Ok(())
}

#[derive(Clone, Debug)]
struct Sched {
    sizes: Vec<usize>,
    spare: Option<usize>,
    cut_mode: u8,
    cut_sel: Vec<(u16, u8)>,
}

fn sched_strategy() -> BoxedStrategy<Sched> {
    let size = prop_oneof![
        30 => Just(1usize),
        15 => Just(2usize),
        25 => 3usize..=9,
        15 => 10usize..=40,
        5 => 41usize..=300,
        10 => Just(usize::MAX),
    ];
    let spare = prop_oneof![
        30 => Just(Some(1usize)),
        18 => Just(Some(2usize)),
        14 => Just(Some(3usize)),
        14 => Just(Some(7usize)),
        8 => Just(Some(16usize)),
        6 => Just(Some(64usize)),
        10 => Just(None),
    ];
    (proptest::collection::vec(size, 1..=6), spare, 0u8..4, proptest::collection::vec((any::<u16>(), 0u8..6), 0..=4))
        .prop_map(|(sizes, spare, cut_mode, cut_sel)| Sched { sizes, spare, cut_mode, cut_sel })
        .boxed()
}

fn stream_base(prop: &'static str, tier: Tier) -> BoxedStrategy<Case> {
    let base = move |size_class: u8| {
        gen::search_case(SearchOpts {
            prop,
            cfg: CfgOpts { mks: vec![Mk::Standard], sks: vec![Sk::Unanchored, Sk::Both], anchored: 0, casei: 1, ..CfgOpts::default() },
            pats: PatOpts { w_empty: 0, max_class: 1, long: false, w_shapes: 2, w_adversarial: 1, w_fanout: 0 },
            hay: HayOpts { size_class },
            full_span_only: true,
            alphabets: gen::default_alphabets(),
            no_empty: true,
        })
    };
    let big = if tier == Tier::Thorough { 3 } else { 2 };
    let cases = Union::new_weighted(vec![(5, base(1)), (4, base(2)), (1, base(big))]);
    // ~1.5% of the cases: a stream longer than the DEFAULT 64 KiB buffer with a
    // match straddling the refill boundary, searched without the capacity hook
    let bigmode = prop_oneof![
        197 => Just(None),
        3 => (
            any::<u16>(),
            any::<u16>(),
            any::<u8>(),
            any::<u16>(),
            // read schedules for long streams: whole-buffer reads, a short
            // first read followed by whole-buffer reads, and reads just below
            // a power of two (buffer-size boundaries)
            prop_oneof![
                3 => Just(vec![usize::MAX]),
                2 => (1usize..=300).prop_map(|a| vec![a, usize::MAX, usize::MAX, usize::MAX]),
                2 => (10u32..=16, 0usize..=24).prop_map(|(k, j)| vec![(1usize << k) - j]),
                2 => (10u32..=16, 1usize..=24, 1usize..=400).prop_map(|(k, j, a)| vec![(1usize << k) - j, a, usize::MAX]),
                1 => proptest::sample::select(vec![4096usize, 65536, 30000, 65535]).prop_map(|a| vec![a]),
            ],
        )
            .prop_map(Some),
    ];
    // ~2% of the cases: one pattern of 513..1300 (sometimes 4097..9000) bytes
    // (longer than typical internal block sizes) next to the short ones, in a
    // stream of a few KB read in large chunks; half of them with a stretch of
    // densely packed short matches in front of the long one
    let longpat = prop_oneof![
        49 => Just(None),
        1 => (prop_oneof![3 => 513usize..=1300, 1 => 4097usize..=9000], any::<u64>(), 0usize..=2500, 0usize..=1300, proptest::sample::select(vec![usize::MAX, 997, 2048, 4096, 700, 64, 1500])).prop_map(Some),
    ];
    (cases, sched_strategy(), bigmode, longpat)
        .prop_map(|(mut case, sched, bigmode, longpat)| {
            if let Some((plen, seed, before, after, read)) = longpat {
                let mut sd = seed | 1;
                let long: Vec<u8> = (0..plen)
                    .map(|_| {
                        sd = sd.wrapping_mul(6364136223846793005).wrapping_add(1442695040888963407);
                        b'A' + ((sd >> 33) % 26) as u8
                    })
                    .collect();
                case.patterns.truncate(4);
                case.patterns.push(long.clone());
                let short = case.patterns[0].clone();
                // stream: filler, short, filler(before), long, short, filler(after), short
                let mut h = vec![b'-'; 40];
                h.extend_from_slice(&short);
                if seed % 2 == 0 {
                    h.extend(std::iter::repeat(b'.').take(before));
                } else {
                    // dense short matches: some occurrence straddles every
                    // offset of this stretch (e.g. wherever a fill stopped);
                    // long enough to reach past the long pattern's length
                    let target = h.len() + before + if plen > 4096 { plen } else { 0 };
                    while h.len() < target {
                        h.extend_from_slice(&short);
                        h.push(b'.');
                    }
                }
                h.extend_from_slice(&long);
                h.extend_from_slice(&short);
                h.extend(std::iter::repeat(b'_').take(after));
                h.extend_from_slice(&short);
                h.extend_from_slice(&long[..plen / 2]);
                case.haystack = h;
                case.span = (0, case.haystack.len());
                case.reads = vec![read];
                case.spare = if seed % 3 == 0 { Some(1 + (seed % 7) as usize) } else { None };
                case.sub = format!("{}+long-pattern-stream", case.sub);
                return case;
            }
            if let Some((which, back, fill, tail, read)) = bigmode {
                case.patterns.truncate(6);
                case.haystack = gen::big_stream(&case.patterns, which, back, fill, tail);
                case.span = (0, case.haystack.len());
                case.reads = read;
                case.spare = None;
                case.sub = format!("{}+big-stream", case.sub);
                return case;
            }
            case.reads = sched.sizes.clone();
            case.spare = sched.spare;
            // cuts derived from the expected matches: reads end at
            // start/end -1/0/+1 of selected matches
            if sched.cut_mode >= 2 && !sched.cut_sel.is_empty() {
                let expect = expected_matches(&case);
                if !expect.is_empty() {
                    let mut cuts = Vec::new();
                    for (sel, d) in &sched.cut_sel {
                        let m = expect[(*sel as usize * expect.len()) >> 16];
                        let base = if d % 2 == 0 { m.start } else { m.end };
                        let delta = (*d / 2) as i64 - 1;
                        let c = base as i64 + delta;
                        if c > 0 && (c as usize) < case.haystack.len() {
                            cuts.push(c);
                        }
                        // also a cut strictly inside the match
                        if m.end - m.start >= 2 {
                            cuts.push((m.start + 1 + (*sel as usize % (m.end - m.start - 1))) as i64);
                        }
                    }
                    cuts.sort();
                    cuts.dedup();
                    case.params = cuts;
                }
            }
            case
        })
        .boxed()
}

fn c07_strategy(tier: Tier) -> BoxedStrategy<Case> {
    stream_base("C07", tier)
}

pub const C07: PropDef = PropDef {
    id: "C07",
    rule: "standard-kind searchers (all 7 engines, prefilter on/off, case-insensitive mix) over non-empty pattern lists; streams of 0..400 bytes (thorough 4K) built from planted/partial patterns; \
a generated read schedule: cycled read sizes from {1, 2, 3..9, 10..40, 41..300, 'fill the whole free buffer'} plus cut offsets derived from the expected matches (reads ending at start/end -1/0/+1 of a match and strictly inside it); \
internal buffer capacity = longest pattern + spare with spare in {1,2,3,7,16,64} via the cfg(aho_corasick_verif) hook, or the default 64 KiB; about 1.5% of the cases are streams of 64 KiB + up to 3 KB with a match straddling offset 65536, searched at the default capacity. \
Deterministic long-pattern scenarios (enumerated): one pattern a^(L-1)b with L in {8191, 8192, 8193, 65535, 65536, 65537, 1 MiB + 4097 (thorough also 2 MiB + 17)} - the boundaries of the default capacity max(8*longest, 64 KiB) - in a stream whose occurrences straddle the capacity boundaries, default capacity, expected matches known by construction. \
Oracle: items of stream_find_iter (all Ok) == reference model iterator on the concatenation == in-memory find_iter, absolute offsets; the iterator ends only after the reader returned Ok(0). \
Non-trivial = the buffer rolled at least once (hook counter) and at least one match spans two reads. Distinct = distinct case fingerprint.",
    assumptions: &["the buffer-capacity hook only changes Buffer::new's capacity (capacity >= longest pattern + 1, the domain stated in the property)", "reference model"],
    cases_quick: 200_000,
    cases_thorough: 3_000_000,
    strategy: c07_strategy,
    check: c07_check,
    extra: Some(c07_extra),
    floors: &[
        ("buffer-rolled", 60_000),
        ("match-spans-two-reads", 40_000),
        ("spare:1", 20_000),
        ("spare:default", 5_000),
        ("single-byte-reads", 20_000),
        ("cuts-around-matches", 20_000),
        ("rolled-at-default-capacity", 1_000),
    ],
};


// ------------------------------------------------------------------ long-pattern scenarios

/// Deterministic scenarios around the default-capacity formula
/// `max(8 * longest, 64 KiB)`: one pattern a^(L-1) b with L at the
/// boundaries 8191/8192/8193 (8L crosses 64 KiB), 65535/65536/65537 and
/// (thorough, or quick for the non-DFA engine) above 1 MiB, in a stream of
/// 'c' filler where the occurrences straddle the capacity boundaries. The
/// expected matches are known by construction.
pub struct LongScenario {
    pub case: Case,
    pub expect: Vec<M>,
}

pub fn long_scenarios(tier: Tier) -> Vec<LongScenario> {
    let mut out = Vec::new();
    let mut lens: Vec<usize> = vec![8191, 8192, 8193, 65535, 65536, 65537];
    lens.push((1 << 20) + 4097);
    if tier == Tier::Thorough {
        lens.push(2 * (1 << 20) + 17);
    }
    for (li, &l) in lens.iter().enumerate() {
        let mut p = vec![b'a'; l - 1];
        p.push(b'b');
        let cap = std::cmp::max(8 * l, 65536);
        // occurrences: one crossing the first capacity boundary, two adjacent
        // ones later, one at the very end
        let mut stream = vec![b'c'; cap - l / 2];
        let mut expect = Vec::new();
        let mut plant = |stream: &mut Vec<u8>| {
            let st = stream.len();
            stream.extend_from_slice(&p);
            expect.push(M { pat: 0, start: st, end: st + l });
        };
        plant(&mut stream);
        stream.extend(std::iter::repeat(b'c').take(l / 3 + 5));
        plant(&mut stream);
        plant(&mut stream);
        stream.extend(std::iter::repeat(b'a').take(l - 1)); // a near miss
        stream.push(b'c');
        plant(&mut stream);
        let engines: &[crate::case::Engine] = if l > 200_000 {
            &[crate::case::Engine::TopNc]
        } else {
            &[crate::case::Engine::TopNc, crate::case::Engine::TopC, crate::case::Engine::TopDfa]
        };
        for (ei, &engine) in engines.iter().enumerate() {
            let reads = match (li + ei) % 4 {
                0 => vec![usize::MAX],
                1 => vec![65536],
                2 => vec![4096, 10000],
                _ => vec![l / 3 + 1],
            };
            out.push(LongScenario {
                case: Case {
                    prop: "C07".into(),
                    sub: format!("long-pattern:{}", l),
                    cfg: crate::case::Cfg { engine, mk: Mk::Standard, sk: Sk::Unanchored, prefilter: ei % 2 == 0, dense_depth: 2, byte_classes: true, casei: false },
                    patterns: vec![p.clone()],
                    haystack: stream.clone(),
                    span: (0, stream.len()),
                    reads,
                    spare: None,
                    ..Case::default()
                },
                expect: expect.clone(),
            });
        }
    }
    out
}

/// Replay of a scenario stand-in (the replay file keeps the parameters, not
/// the multi-megabyte stream): re-run the matching scenario(s).
fn replay_long_scenario(case: &Case, with_faults: bool) -> Result<(), String> {
    let l = case.params.first().copied().unwrap_or(0) as usize;
    let mut ctx = Ctx::default();
    let scenarios: Vec<LongScenario> = long_scenarios(Tier::Thorough)
        .into_iter()
        .filter(|s| s.case.patterns[0].len() == l && s.case.cfg.engine == case.cfg.engine)
        .collect();
    if scenarios.is_empty() {
        return Err(format!("no long-pattern scenario with L = {} and engine {:?}", l, case.cfg.engine));
    }
    run_scenario_list("C07", &scenarios, &mut ctx, with_faults).map(|_| ()).map_err(|v| v.reason)
}

fn run_long_scenarios(prop: &'static str, tier: Tier, ctx: &mut Ctx, with_faults: bool) -> Result<bool, crate::runner::Violation> {
    let scenarios = long_scenarios(tier);
    run_scenario_list(prop, &scenarios, ctx, with_faults)
}

fn run_scenario_list(prop: &'static str, scenarios: &[LongScenario], ctx: &mut Ctx, with_faults: bool) -> Result<bool, crate::runner::Violation> {
    let results: Vec<Result<(), crate::runner::Violation>> = std::thread::scope(|sc| {
        let hs: Vec<_> = scenarios
            .iter()
            .map(|scn| {
                sc.spawn(move || -> Result<(), crate::runner::Violation> {
                    let mut case = scn.case.clone();
                    case.prop = prop.to_string();
                    let fail = |reason: String| crate::runner::Violation {
                        // the replay keeps the scenario parameters, not the multi-megabyte stream
                        case: Case { haystack: Vec::new(), patterns: vec![], note: String::new(), params: vec![case.patterns[0].len() as i64], ..case.clone() },
                        reason,
                    };
                    let s = Searcher::build(&case.cfg, &case.patterns).map_err(|e| fail(e))?;
                    let run = run_stream_find(&s, &case, None).map_err(|e| fail(e))?;
                    let got: Vec<M> = run.items.iter().filter_map(|r| r.as_ref().ok().copied()).collect();
                    if run.items.iter().any(|r| r.is_err()) {
                        return Err(fail("long-pattern scenario: the fault-free stream search yielded an I/O error".into()));
                    }
                    if got != scn.expect {
                        return Err(fail(format!("long-pattern scenario (L = {}): expected {:?}, got {:?}", case.patterns[0].len(), scn.expect, got)));
                    }
                    if !run.eof_returned {
                        return Err(fail(format!("long-pattern scenario (L = {}): the iterator ended before the reader reported end of stream", case.patterns[0].len())));
                    }
                    if with_faults {
                        // a read failure late in the stream must surface
                        for k in [run.read_calls, run.read_calls.saturating_sub(1).max(1), (run.read_calls / 2).max(1)] {
                            let r = run_stream_find(&s, &case, Some(k)).map_err(|e| fail(e))?;
                            if r.items.last() != Some(&Err(READ_FAULT)) {
                                return Err(fail(format!("long-pattern scenario (L = {}): read fault at call {} of {} did not surface as the last item (items: {} matches, last {:?})", case.patterns[0].len(), k, run.read_calls, r.items.len(), r.items.last())));
                            }
                            let m: Vec<M> = r.items.iter().filter_map(|x| x.as_ref().ok().copied()).collect();
                            if !is_prefix(&m, &scn.expect) {
                                return Err(fail("long-pattern scenario: matches before the fault are not a prefix".into()));
                            }
                        }
                    }
                    Ok(())
                })
            })
            .collect();
        hs.into_iter().map(|h| h.join().expect("scenario thread")).collect()
    });
    for (scn, r) in scenarios.iter().zip(results) {
        r?;
        ctx.begin();
        ctx.nontrivial();
        ctx.class(&format!("scenario:{}", scn.case.sub));
        // counted with a compact stand-in (the stream itself is megabytes long)
        let stand_in = Case { haystack: Vec::new(), patterns: vec![], params: vec![scn.case.patterns[0].len() as i64], ..scn.case.clone() };
        ctx.end(&stand_in);
        ctx.enumerated += 1;
    }
    Ok(false)
}

fn c07_extra(tier: Tier, _seed: u64, ctx: &mut Ctx) -> Result<bool, crate::runner::Violation> {
    run_long_scenarios("C07", tier, ctx, false)
}

fn c18_extra(tier: Tier, _seed: u64, ctx: &mut Ctx) -> Result<bool, crate::runner::Violation> {
    run_long_scenarios("C18", tier, ctx, true)
}

// ------------------------------------------------------------------ C08

struct ReplaceRun {
    result: Result<(), io::ErrorKind>,
    out: Vec<u8>,
    write_calls: usize,
    read_calls: usize,
    rolls: u64,
    boundaries: Vec<usize>,
    /// (match, bytes handed to the closure) for the `_with` variant
    seen: Vec<(M, Vec<u8>)>,
}

fn run_replace(s: &Searcher, case: &Case, with_closure: bool, fault: &Option<Fault>, closure_fail_at: Option<usize>) -> Result<ReplaceRun, String> {
    run_replace_kind(s, case, with_closure, fault, closure_fail_at, READ_FAULT)
}

fn run_replace_kind(s: &Searcher, case: &Case, with_closure: bool, fault: &Option<Fault>, closure_fail_at: Option<usize>, kind: io::ErrorKind) -> Result<ReplaceRun, String> {
    let cuts = cuts_of(case);
    let _g = SpareGuard::set(case.spare);
    let read_fail = match fault {
        Some(Fault::Read { k }) => Some(*k),
        _ => None,
    };
    let mut rdr = SchedReader::new(&case.haystack, &case.reads, &cuts, read_fail).with_kind(kind);
    let mut wtr = SchedWriter::new(case.write_chunk, fault);
    let mut seen: Vec<(M, Vec<u8>)> = Vec::new();
    let repl = &case.repl;
    let r = guard(|| {
        if with_closure {
            s.stream_replace_all_with(&mut rdr, &mut wtr, |m, bytes, w| {
                seen.push((to_m(*m), bytes.to_vec()));
                if closure_fail_at == Some(seen.len() - 1) {
                    return Err(io::Error::new(CLOSURE_FAULT, "injected closure fault"));
                }
                w.write_all(&repl[m.pattern().as_usize()])
            })
        } else {
            s.stream_replace_all(&mut rdr, &mut wtr, repl)
        }
    });
    let rolls = verif::counters().rolls;
    let result = r.map_err(|p| format!("stream_replace_all{} panicked: {}", if with_closure { "_with" } else { "" }, p))?;
    Ok(ReplaceRun {
        result: result.map_err(|e| e.kind()),
        out: wtr.out,
        write_calls: wtr.calls,
        read_calls: rdr.calls,
        rolls,
        boundaries: rdr.boundaries,
        seen,
    })
}

fn c08_check(case: &Case, ctx: &mut Ctx) -> Result<(), String> {
    sound(case)?;
    if case.repl.len() != case.patterns.len() {
        return Err("unsound C08 case: replacement table length".into());
    }
    let s = Searcher::build(&case.cfg, &case.patterns)?;
    let expect_m = expected_matches(case);
    let expect_out = model::replace_all_bytes(&case.haystack, &expect_m, &case.repl, None);
    let mut any_run = None;
    for with_closure in [false, true] {
        let run = run_replace(&s, case, with_closure, &None, None)?;
        let name = if with_closure { "stream_replace_all_with" } else { "stream_replace_all" };
        if let Err(k) = run.result {
            return Err(format!("{} returned an I/O error {:?} although nothing failed", name, k));
        }
        if run.out != expect_out {
            let k = run.out.iter().zip(expect_out.iter()).take_while(|(a, b)| a == b).count();
            return Err(format!(
                "{}: output differs from the model at byte {}: expected {:?}, got {:?}",
                name,
                k,
                crate::case::esc::to_string(&expect_out[k.saturating_sub(8)..(k + 16).min(expect_out.len())]),
                crate::case::esc::to_string(&run.out[k.saturating_sub(8).min(run.out.len())..(k + 16).min(run.out.len())])
            ));
        }
        if with_closure {
            let mats: Vec<M> = run.seen.iter().map(|(m, _)| *m).collect();
            if mats != expect_m {
                return Err(format!("{}: closure saw matches {:?}, expected {:?}", name, mats, expect_m));
            }
            for (m, bytes) in &run.seen {
                if bytes[..] != case.haystack[m.start..m.end] {
                    return Err(format!("{}: closure got bytes {:?} for {:?}, stream has {:?}", name, crate::case::esc::to_string(bytes), m, crate::case::esc::to_string(&case.haystack[m.start..m.end])));
                }
            }
        }
        any_run = Some(run);
    }
    // in-memory replace_all_bytes of the same searcher agrees
    let mem = guard(|| s.replace_all_bytes(&case.haystack, &case.repl)).map_err(|p| format!("replace_all_bytes panicked: {}", p))?.map_err(|e| format!("replace_all_bytes: Err({})", e))?;
    if mem != expect_out {
        return Err("in-memory replace_all_bytes differs from the model".into());
    }
    let run = any_run.unwrap();
    let sr = StreamRun { items: vec![], read_calls: run.read_calls, boundaries: run.boundaries.clone(), rolls: run.rolls, eof_returned: true };
    let rolled_and_split = stream_classes(case, &sr, &expect_m, ctx);
    let len_change = expect_m.iter().any(|m| case.repl[m.pat].len() != m.len());
    if len_change {
        ctx.class("replacement-changes-length");
    }
    if case.write_chunk.is_some() {
        ctx.class("partial-writes");
    }
    if expect_m.iter().any(|m| case.repl[m.pat].is_empty()) {
        ctx.class("empty-replacement-used");
    }
    let _ = rolled_and_split;
    if run.rolls > 0 && len_change {
        ctx.nontrivial();
    }
    Ok(())
}

fn with_repl(base: BoxedStrategy<Case>) -> BoxedStrategy<Case> {
    (base, proptest::collection::vec((0u8..8, any::<u16>(), proptest::collection::vec(any::<u8>(), 0..=6)), 1..=8), proptest::option::weighted(0.3, 1usize..=3))
        .prop_map(|(mut case, rs, chunk)| {
            let n = case.patterns.len();
            let alpha = gen::alphabet(gen::ALPHA_ABCX);
            case.repl = (0..n)
                .map(|i| {
                    let (kind, sel, raw) = &rs[i % rs.len()];
                    match kind {
                        0 => Vec::new(),
                        // pattern-like content: another pattern or this one
                        1 => case.patterns[(*sel as usize * n) >> 16].clone(),
                        2 => case.patterns[i].clone(),
                        _ => raw.iter().map(|&r| alpha[(r as usize * alpha.len()) >> 8]).collect(),
                    }
                })
                .collect();
            case.write_chunk = chunk;
            case
        })
        .boxed()
}

fn c08_strategy(tier: Tier) -> BoxedStrategy<Case> {
    with_repl(stream_base("C08", tier))
}

pub const C08: PropDef = PropDef {
    id: "C08",
    rule: "C07's generators (schedules, cut offsets around matches, buffer spare via the hook) plus a replacement table (empty, pattern-like, random, length 0..6) and an optional writer that accepts only 1..3 bytes per call. \
Oracle: the bytes written by try_stream_replace_all and by try_stream_replace_all_with == reference model replace_all on the concatenation == in-memory replace_all_bytes; the closure variant must be handed exactly the model's match sequence (absolute offsets) and bytes == stream[match range]. Only the concatenated output is compared. \
Non-trivial = the buffer rolled at least once and at least one applied replacement changes the length. Distinct = distinct case fingerprint.",
    assumptions: &["buffer-capacity hook as in C07", "reference model replace_all = splice of the model iterator"],
    cases_quick: 250_000,
    cases_thorough: 3_000_000,
    strategy: c08_strategy,
    check: c08_check,
    extra: None,
    floors: &[("buffer-rolled", 50_000), ("replacement-changes-length", 50_000), ("partial-writes", 20_000), ("empty-replacement-used", 10_000)],
};

// ------------------------------------------------------------------ C18

fn is_prefix<T: PartialEq>(a: &[T], b: &[T]) -> bool {
    a.len() <= b.len() && a[..] == b[..a.len()]
}

/// Fault positions (1-based call indices) to enumerate: every call when
/// there are at most 400 of them; for longer runs (the > 64 KiB stream class
/// read or written in tiny pieces) the first 10, the last 10 and about 10
/// evenly spaced calls in between, so that one case stays linear in the
/// stream length.
fn fault_points(calls: usize) -> Vec<usize> {
    if calls <= 400 {
        return (1..=calls).collect();
    }
    let stride = std::cmp::max(1, (calls - 20) / 10);
    (1..=10).chain((11..=calls - 10).step_by(stride)).chain(calls - 9..=calls).collect()
}

fn c18_check(case: &Case, ctx: &mut Ctx) -> Result<(), String> {
    if case.sub.starts_with("long-pattern:") {
        return replay_long_scenario(case, true);
    }
    sound(case)?;
    if case.repl.len() != case.patterns.len() {
        return Err("unsound C18 case: replacement table length".into());
    }
    let s = Searcher::build(&case.cfg, &case.patterns)?;
    // If the case carries an explicit fault (replay of a shrunk failure) only
    // that fault is injected; otherwise every fault position is enumerated.
    let base_find = run_stream_find(&s, case, None)?;
    let free_matches: Vec<M> = base_find.items.iter().filter_map(|r| r.as_ref().ok().copied()).collect();
    if base_find.items.iter().any(|r| r.is_err()) {
        return Err("fault-free stream_find_iter yielded an error".into());
    }
    let base_rep = run_replace(&s, case, false, &None, None)?;
    let base_with = run_replace(&s, case, true, &None, None)?;
    if base_rep.result.is_err() || base_with.result.is_err() {
        return Err("fault-free stream replacement returned an error".into());
    }
    let free_out = base_rep.out.clone();
    if base_with.out != free_out {
        return Err("fault-free closure variant output differs from the table variant".into());
    }
    let r_calls = base_find.read_calls;
    let mut faults = 0u64;
    let mut after_roll = false;
    let mut between = false;
    let explicit = case.fault.clone();

    // ---- read faults on the match iterator
    let read_ks: Vec<usize> = match &explicit {
        Some(Fault::Read { k }) => vec![*k],
        Some(_) => vec![],
        None => fault_points(r_calls),
    };
    for &k in &read_ks {
        // the kind of the injected error varies with the fault position
        let kind = READ_KINDS[k % READ_KINDS.len()];
        let run = run_stream_find_kind(&s, case, Some(k), kind)?;
        faults += 1;
        let got: Vec<M> = run.items.iter().filter_map(|r| r.as_ref().ok().copied()).collect();
        let errs: Vec<&Result<M, io::ErrorKind>> = run.items.iter().filter(|r| r.is_err()).collect();
        // `Interrupted` conventionally means "retry": an implementation may
        // either report it or retry the read; in the latter case the whole
        // fault-free result must come out. Anything else (e.g. treating it as
        // end of stream) loses data silently.
        let retried = kind == io::ErrorKind::Interrupted && errs.is_empty() && got == free_matches && run.eof_returned;
        if k <= r_calls && !retried {
            if errs.len() != 1 || !matches!(run.items.last(), Some(Err(_))) {
                return Err(format!("read fault ({:?}) at call {}: expected exactly one trailing error item, got items {:?} (reader eof returned: {})", kind, k, run.items, run.eof_returned));
            }
            if run.items.last() != Some(&Err(kind)) {
                return Err(format!("read fault ({:?}) at call {}: error kind {:?} is not the injected one", kind, k, run.items.last()));
            }
        }
        if !is_prefix(&got, &free_matches) {
            return Err(format!("read fault at call {}: matches before the error {:?} are not a prefix of the fault-free sequence {:?}", k, got, free_matches));
        }
        if run.rolls > 0 {
            after_roll = true;
        }
        // the fault lands between the two reads that a match spans
        if let Some(&b) = run.boundaries.last() {
            if free_matches.iter().any(|m| m.start < b && b < m.end) {
                between = true;
            }
        }
    }
    // ---- read faults on replacement
    for &k in &read_ks {
        for with_closure in [false, true] {
            let kind = READ_KINDS[(k + 1) % READ_KINDS.len()];
            let run = run_replace_kind(&s, case, with_closure, &Some(Fault::Read { k }), None, kind)?;
            faults += 1;
            let retried = kind == io::ErrorKind::Interrupted && run.result.is_ok() && run.out == free_out;
            match run.result {
                Err(got) if got == kind => {}
                _ if retried => {}
                other => return Err(format!("replacement with read fault ({:?}) at call {}: expected Err({:?}), got {:?} with {} of {} output bytes", kind, k, kind, other, run.out.len(), free_out.len())),
            }
            if !is_prefix(&run.out, &free_out) {
                return Err(format!("replacement with read fault at call {}: bytes written are not a prefix of the fault-free output", k));
            }
        }
    }
    // ---- write faults by call index
    let w_calls = base_rep.write_calls;
    let write_ks: Vec<usize> = match &explicit {
        Some(Fault::Write { k }) => vec![*k],
        Some(_) => vec![],
        None => fault_points(w_calls),
    };
    for &k in &write_ks {
        let run = run_replace(&s, case, false, &Some(Fault::Write { k }), None)?;
        faults += 1;
        if k <= w_calls {
            match run.result {
                Err(kind) if kind == WRITE_FAULT => {}
                other => return Err(format!("write fault at call {}: expected Err({:?}), got {:?}", k, WRITE_FAULT, other)),
            }
        }
        if !is_prefix(&run.out, &free_out) {
            return Err(format!("write fault at call {}: bytes written are not a prefix of the fault-free output", k));
        }
        if run.rolls > 0 {
            after_roll = true;
        }
    }
    // ---- writer accepts exactly n bytes, then fails
    let byte_ns: Vec<usize> = match &explicit {
        Some(Fault::WriteAfterBytes { n }) | Some(Fault::WriteFullAfterBytes { n }) => vec![*n],
        Some(_) => vec![],
        None => {
            let total = free_out.len();
            if total <= 96 {
                (0..total).collect()
            } else {
                // every position near the start/end and a stride in between
                // (at most ~40 points in between for very long outputs)
                let stride = std::cmp::max(7, (total - 64) / 40);
                let edge = if total > 20_000 { 10 } else { 32 };
                let stride = if total > 20_000 { (total - 64) / 10 } else { stride };
                (0..edge).chain((32..total - 32).step_by(stride)).chain(total - edge..total).collect()
            }
        }
    };
    for &n in &byte_ns {
        for with_closure in [false, true] {
            let run = run_replace(&s, case, with_closure, &Some(Fault::WriteAfterBytes { n }), None)?;
            faults += 1;
            if n < free_out.len() {
                match run.result {
                    Err(kind) if kind == WRITE_FAULT => {}
                    other => return Err(format!("writer failing after {} bytes: expected Err({:?}), got {:?}", n, WRITE_FAULT, other)),
                }
                if run.out[..] != free_out[..n] {
                    return Err(format!("writer failing after {} bytes: accepted bytes are not the first {} bytes of the fault-free output", n, n));
                }
            }
            // the same limit on a sink that is simply full: it reports Ok(0),
            // which must surface as an error (WriteZero), never as success
            let full_explicit = matches!(explicit, Some(Fault::WriteFullAfterBytes { .. }));
            if (n % 3 == 0 && explicit.is_none()) || full_explicit {
                let run = run_replace(&s, case, with_closure, &Some(Fault::WriteFullAfterBytes { n }), None)?;
                faults += 1;
                if n < free_out.len() {
                    match run.result {
                        Err(io::ErrorKind::WriteZero) => {}
                        other => return Err(format!("full sink after {} bytes (write returns Ok(0)): expected Err(WriteZero), got {:?} with {} of {} output bytes", n, other, run.out.len(), free_out.len())),
                    }
                    if run.out[..] != free_out[..n] {
                        return Err(format!("full sink after {} bytes: accepted bytes are not the first {} bytes of the fault-free output", n, n));
                    }
                }
            }
        }
    }
    // ---- the closure fails at match j
    if explicit.is_none() {
        for j in 0..free_matches.len().min(24) {
            let run = run_replace(&s, case, true, &None, Some(j))?;
            faults += 1;
            match run.result {
                Err(kind) if kind == CLOSURE_FAULT => {}
                other => return Err(format!("closure failing at match {}: expected Err({:?}), got {:?}", j, CLOSURE_FAULT, other)),
            }
            if !is_prefix(&run.out, &free_out) {
                return Err(format!("closure failing at match {}: bytes written are not a prefix of the fault-free output", j));
            }
            let mats: Vec<M> = run.seen.iter().map(|(m, _)| *m).collect();
            if mats[..] != free_matches[..=j] {
                return Err(format!("closure failing at match {}: closure saw {:?}", j, mats));
            }
        }
    }
    ctx.count("faults_injected", faults);
    ctx.count("read_calls_fault_free", r_calls as u64);
    ctx.class(sem::engine_class(case.cfg.engine));
    ctx.class(&match case.spare {
        None => "spare:default".to_string(),
        Some(s) => format!("spare:{}", s),
    });
    if after_roll {
        ctx.class("fault-after-roll");
    }
    if between {
        ctx.class("fault-between-reads-of-a-match");
    }
    if faults > 0 && (after_roll || between) {
        ctx.nontrivial();
    }
    Ok(())
}

fn c18_strategy(_tier: Tier) -> BoxedStrategy<Case> {
    // shorter streams: every fault position is enumerated per case
    let base = |size_class: u8| {
        gen::search_case(SearchOpts {
            prop: "C18",
            cfg: CfgOpts { mks: vec![Mk::Standard], sks: vec![Sk::Unanchored, Sk::Both], anchored: 0, casei: 1, ..CfgOpts::default() },
            pats: PatOpts { w_empty: 0, max_class: 0, long: false, w_shapes: 1, w_adversarial: 1, w_fanout: 0 },
            hay: HayOpts { size_class },
            full_span_only: true,
            alphabets: gen::default_alphabets(),
            no_empty: true,
        })
    };
    let cases = Union::new_weighted(vec![(7, base(0)), (3, base(1))]).boxed();
    let with_sched = (cases, sched_strategy())
        .prop_map(|(mut case, sched)| {
            case.reads = sched.sizes.clone();
            case.spare = sched.spare;
            case
        })
        .boxed();
    with_repl(with_sched)
}

pub const C18: PropDef = PropDef {
    id: "C18",
    rule: "C07/C08 generators with shorter streams; for each generated (stream, read schedule, buffer spare, replacement table, writer chunking) the fault-free run is executed first to learn the number of read calls R and write calls W and the output length, \
then EVERY fault position is injected (all of them when a run makes at most 400 calls, which is every case except the rare > 64 KiB stream class read in tiny pieces; there the first 10, the last 10 and about 10 evenly spaced calls): read failure at call k for k in 1..=R (match iterator, table replacement, closure replacement; the error kind cycles through ConnectionReset / Interrupted / UnexpectedEof / WouldBlock / Other with k; for Interrupted either reporting it or retrying with the complete fault-free result is accepted), write failure at call k in 1..=W, a writer that accepts exactly n bytes then fails for every n - with an error, and for every third n as a full sink that answers Ok(0), which must surface as WriteZero - (all n if output <= 96 bytes, else first/last 32 and every 7th, at most ~40 in between; first/last 10 and ~10 in between above 20 000 bytes), and the closure failing at match j. \
Oracle: nothing panics; the injected error kind surfaces (one trailing Some(Err) item, resp. the returned Err); matches before it are a prefix of the fault-free sequence; bytes written are a prefix of the fault-free output (exactly the first n for the byte-limited writer); the iterator never ends before the reader returned Ok(0). \
The long-pattern scenarios of C07 (L up to 1 MiB + 4097 at the default capacity) are re-run with a read failure at the last, second-to-last and middle read call. evaluations counts generated cases; the counter faults_injected counts fault runs. \
Non-trivial = at least one fault was injected after a buffer roll, or between the two reads that a match spans. Distinct = distinct case fingerprint.",
    assumptions: &["faults are injected at call granularity (and byte granularity for writes); a failing reader is not called again", "buffer-capacity hook as in C07"],
    cases_quick: 120_000,
    cases_thorough: 2_000_000,
    strategy: c18_strategy,
    check: c18_check,
    extra: Some(c18_extra),
    floors: &[("fault-after-roll", 40_000), ("fault-between-reads-of-a-match", 20_000)],
};
