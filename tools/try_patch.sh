#!/bin/bash
# usage: tools/try_patch.sh <patch.diff> <ID> [<ID>...]
# Applies a seeded change to /repo, runs the quick check of each listed property, and ALWAYS reverts.
# Prints one line per property: CAUGHT / MISSED / INCONCLUSIVE and the seconds taken.
set -u
PATCH="$(readlink -f "$1")"; shift
REPO="${REPO:-/repo}"; VERIF="${VERIF:-/verif}"
cd "$REPO" || exit 2
if [ -n "$(git status --porcelain --untracked-files=no)" ]; then echo "$REPO is dirty; refusing"; exit 2; fi
if ! git apply --check "$PATCH" 2>/dev/null; then echo "patch does not apply: $PATCH"; exit 2; fi
git apply "$PATCH"
trap 'cd "$REPO" && git checkout -- . ' EXIT
for ID in "$@"; do
    start=$(date +%s.%N)
    out="$(cd "$VERIF" && VERIF_SEED="${VERIF_SEED:-0}" ./check "$ID" "${TIER:-quick}" 2>&1)"; rc=$?
    end=$(date +%s.%N)
    t=$(printf "%.1f" "$(echo "$end - $start" | bc)")
    case $rc in
        1) echo "CAUGHT  $ID ${t}s  $(echo "$out" | grep '^reason:' | head -1 | cut -c1-220)";;
        0) echo "MISSED  $ID ${t}s";;
        *) echo "INCONCLUSIVE $ID rc=$rc ${t}s $(echo "$out" | tail -2 | tr '\n' ' ' | cut -c1-200)";;
    esac
done
