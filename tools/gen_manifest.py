#!/usr/bin/env python3
"""Regenerates /verif/MANIFEST.json from the table below (kept next to the code so that
the manifest, DESIGN.md and the harness stay in step)."""
import json, os, subprocess, sys

ROOT = os.path.dirname(os.path.dirname(os.path.abspath(__file__)))

HOOK_COMMITS = ["7a84c71", "6c41cd0"]

# id -> (technique, level text, level note, design ref)
CHECKS = {
 "C01": ("property-based testing against a reference model (proptest, 16 seeded workers) + bounded-exhaustive enumeration + regression replays",
         "Exploration: every generated/enumerated (config, pattern list, haystack, span) is compared with an independent quadratic reference model of leftmost-first/-longest find and the iterator; all lists of <=2 (thorough <=3) patterns over {a,b} incl. the empty pattern x all haystacks <=5 (<=7) x all spans are enumerated completely.",
         "Trusted: reference model (harness/src/model.rs), proptest, the reading of the empty-match iterator rule. Held-on-everything-explored, not a proof.", "DESIGN.md §4 C01"),
 "C02": ("property-based testing against a reference model + bounded-exhaustive enumeration",
         "Exploration: standard-semantics find/iterator vs. the model's argmin(end, longest, supply order) on generated and enumerated inputs.",
         "Trusted: reference model, proptest.", "DESIGN.md §4 C02"),
 "C03": ("model-based testing of call histories on one OverlappingState (exact sequence oracle) + bounded-exhaustive enumeration + regression replays",
         "Exploration: the full stepwise history and the overlapping iterator are compared element by element with the model's ordered occurrence list; 3 extra steps after exhaustion must stay silent.",
         "Trusted: reference model, proptest.", "DESIGN.md §4 C03"),
 "C09": ("property-based testing against the reference model restricted to the anchored start + bounded-exhaustive enumeration + regression replays",
         "Exploration: anchored find / iterator / stepwise overlapping / is_match / earliest vs. the model restricted to occurrences starting at the search start, all match kinds and anchoring-capable engines.",
         "Trusted: reference model, proptest.", "DESIGN.md §4 C09"),
 "C11": ("property-based testing against a case-folding reference model + bounded-exhaustive enumeration over {a,A,@}",
         "Exploration: all search APIs with ascii_case_insensitive(true) vs. a model that folds exactly A-Z, on alphabets containing the bytes adjacent to the letter ranges and high bytes that look like letters.",
         "Trusted: reference model fold(), proptest.", "DESIGN.md §4 C11"),
 "C14": ("property-based testing: is_match/find/model agreement and an earliest-mode validity predicate + bounded-exhaustive enumeration",
         "Exploration: is_match == find.is_some() == model; earliest result is a genuine occurrence ending no later than the normal match and None iff the normal search is None.",
         "Trusted: reference model, proptest.", "DESIGN.md §4 C14"),
}

NOT_YET = {}

def main():
    props = [json.loads(l) for l in open(os.path.join(ROOT, "properties.jsonl"))]
    checks = []
    na = []
    for p in props:
        pid = p["id"]
        if pid in CHECKS:
            tech, text, note, ref = CHECKS[pid]
            checks.append({
                "property_id": pid,
                "quick_cmd": "./check %s quick" % pid,
                "thorough_cmd": "./check %s thorough" % pid,
                "evidence_file": "/verif/evidence/%s.json" % pid,
                "replay_cmd_template": "./check %s --replay {path}" % pid,
                "engine": "acverif",
                "level_claimed": {"category": "exploration", "text": text, "design_ref": ref},
                "level_note": note,
                "technique": tech,
            })
        else:
            na.append({"property_id": pid, "reason": NOT_YET.get(pid, "check not built yet in this session (property-based check planned in DESIGN.md §4); not claimed until it exists")})
    m = {
        "version": 1,
        "setup_cmd": "./check --build",
        "hooks": {
            "guard": "aho_corasick_verif",
            "enable": "RUSTFLAGS=\"--cfg aho_corasick_verif\" (set in /verif/harness/.cargo/config.toml [build] rustflags)",
            "baseline_off_cmd": "cd /repo && cargo test --offline --no-fail-fast",
            "source_commits": HOOK_COMMITS,
            "add_only": True,
        },
        "engines": [
            {"name": "acverif", "path": "/verif/harness", "serves_properties": sorted(CHECKS.keys()),
             "kind_free_text": "Rust harness: proptest strategies (structured generators, 16 seeded workers), independent reference model, bounded-exhaustive enumerators, replay of serialised cases; path-depends on /repo and rebuilds it with --cfg aho_corasick_verif on every check"},
        ],
        "checks": checks,
        "not_applicable": na,
        "notes": "All checks: exit 0 held, 1 violation (VIOLATION line), 2 build failure/watchdog (INCONCLUSIVE). VERIF_SEED selects the PRNG stream; VERIF_SCALE scales the random-tier case count (default 1).",
    }
    json.dump(m, open(os.path.join(ROOT, "MANIFEST.json"), "w"), indent=1)
    print("wrote MANIFEST.json with", len(checks), "checks,", len(na), "not_applicable")

main()
