use acverif::runner::{self, Tier};

fn usage() -> ! {
    eprintln!("usage: acverif run <ID> quick|thorough | acverif replay <ID> <file> | acverif list");
    std::process::exit(2)
}

fn main() {
    let args: Vec<String> = std::env::args().collect();
    if args.len() < 2 {
        usage();
    }
    acverif::engine::install_panic_hook();
    let seed: u64 = std::env::var("VERIF_SEED")
        .ok()
        .and_then(|s| s.trim().parse::<i64>().ok())
        .map(|v| v as u64)
        .unwrap_or(0);
    match args[1].as_str() {
        "list" => {
            for d in acverif::props::all() {
                println!("{}", d.id);
            }
        }
        "run" => {
            if args.len() < 4 {
                usage();
            }
            let def = acverif::props::by_id(&args[2]).unwrap_or_else(|| {
                eprintln!("unknown property {}", args[2]);
                std::process::exit(2)
            });
            let tier = match args[3].as_str() {
                "quick" => Tier::Quick,
                "thorough" => Tier::Thorough,
                _ => usage(),
            };
            std::process::exit(runner::run_property(def, tier, seed));
        }
        "replay" => {
            if args.len() < 4 {
                usage();
            }
            let def = acverif::props::by_id(&args[2]).unwrap_or_else(|| {
                eprintln!("unknown property {}", args[2]);
                std::process::exit(2)
            });
            std::process::exit(runner::replay_file(def, std::path::Path::new(&args[3])));
        }
        "c15-child" => {
            // c15-child <tier> <seed> <worker> <cases> <out> <crumb>
            let tier = if args[2] == "thorough" { Tier::Thorough } else { Tier::Quick };
            let seed: u64 = args[3].parse().unwrap();
            let worker: u64 = args[4].parse().unwrap();
            let cases: u64 = args[5].parse().unwrap();
            std::process::exit(acverif::props::packed::c15_child(
                tier,
                seed,
                worker,
                cases,
                std::path::Path::new(&args[6]),
                std::path::Path::new(&args[7]),
            ));
        }
        "c15-one" => {
            std::process::exit(acverif::props::packed::c15_one(std::path::Path::new(&args[2])));
        }
        _ => usage(),
    }
}
