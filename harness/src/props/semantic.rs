//! C01, C02, C03, C09, C11, C14: search results against the reference model.

use proptest::strategy::BoxedStrategy;

use crate::case::{Case, Cfg, Engine, Mk, Sk};
use crate::engine::Searcher;
use crate::exhaust::{run_scope, Scope};
use crate::gen::{self, CfgOpts, HayOpts, PatOpts, SearchOpts};
use crate::runner::{Ctx, PropDef, Tier, Violation};
use crate::sem::{self, Facts, Flags};

fn cfgs_for(engines: &[Engine], mks: &[Mk], casei: bool) -> Vec<Cfg> {
    let mut v = Vec::new();
    for &engine in engines {
        for &mk in mks {
            v.push(Cfg {
                engine,
                mk,
                sk: Sk::Both,
                prefilter: true,
                dense_depth: if matches!(engine, Engine::TopC | Engine::LowC) { 1 } else { 2 },
                byte_classes: true,
                casei,
            });
        }
    }
    v
}

fn enum_engines(tier: Tier) -> Vec<Engine> {
    match tier {
        Tier::Quick => vec![Engine::LowNc, Engine::TopC, Engine::TopDfa],
        Tier::Thorough => Engine::ALL.to_vec(),
    }
}

fn build_and(
    case: &Case,
    ctx: &mut Ctx,
    f: fn(&Searcher, &Case, &mut Ctx) -> Result<(), String>,
) -> Result<(), String> {
    if !case.cfg.supports_anchored(case.anchored) {
        return Err("replay case requests an unsupported anchoring (unsound case)".into());
    }
    let s = Searcher::build(&case.cfg, &case.patterns)?;
    f(&s, case, ctx)
}

// ------------------------------------------------------------------ C01

fn c01_built(s: &Searcher, case: &Case, ctx: &mut Ctx) -> Result<(), String> {
    if !case.cfg.mk.is_leftmost() {
        return Err("C01 case with a non-leftmost match kind (unsound case)".into());
    }
    let f = sem::check_semantics(s, case, Flags { find: true, iter: true, ..Flags::default() }, ctx)?;
    sem::common_classes(case, &f, ctx);
    if (f.competing || f.empty_with_long) && f.occurrences > 0 {
        ctx.nontrivial();
    }
    Ok(())
}

fn c01_check(case: &Case, ctx: &mut Ctx) -> Result<(), String> {
    build_and(case, ctx, c01_built)
}

fn c01_strategy(tier: Tier) -> BoxedStrategy<Case> {
    gen::search_case(SearchOpts {
        prop: "C01",
        cfg: CfgOpts {
            mks: vec![Mk::LeftmostFirst, Mk::LeftmostLongest],
            anchored: 0,
            casei: 1,
            ..CfgOpts::default()
        },
        pats: PatOpts { w_empty: 8, max_class: if tier == Tier::Thorough { 2 } else { 1 }, long: true, w_fanout: 1, ..PatOpts::default() },
        hay: HayOpts { size_class: 1 },
        full_span_only: false,
        alphabets: gen::default_alphabets(),
        no_empty: false,
    })
}

fn c01_extra(tier: Tier, _seed: u64, ctx: &mut Ctx) -> Result<bool, Violation> {
    let (p, l, h) = match tier {
        Tier::Quick => (2, 3, 5),
        Tier::Thorough => (3, 2, 6),
    };
    let scope = Scope {
        prop: "C01",
        alpha: b"ab".to_vec(),
        max_pats: p,
        max_pat_len: l,
        max_hay_len: h,
        cfgs: cfgs_for(&enum_engines(tier), &[Mk::LeftmostFirst, Mk::LeftmostLongest], false),
        anchored: vec![false],
        no_empty: false,
        full_span_only: false,
    };
    run_scope(&scope, c01_built, ctx)?;
    if tier == Tier::Thorough {
        // deeper patterns, fewer of them
        let scope = Scope { max_pats: 2, max_pat_len: 4, max_hay_len: 7, ..scope };
        run_scope(&scope, c01_built, ctx)?;
    }
    Ok(true)
}

pub const C01: PropDef = PropDef {
    id: "C01",
    rule: "random tier: proptest-generated (config, pattern list, haystack, span) with patterns derived from each other \
(duplicate/prefix/suffix/infix/extension/case-flip/empty) and haystacks built from planted/partial occurrences; \
enumerated tier: all ordered lists of <=P patterns of length <=L over {a,b} incl. the empty pattern x all haystacks of length <=H x all spans (incl. start=end+1). \
Oracle: reference model find + iterator for leftmost-first/-longest. \
Non-trivial = at least one occurrence in the span and (two occurrences compete: same start with different pattern, or overlapping with different starts; \
or the empty pattern coexists with a pattern of length >= 2). Distinct = distinct 64-bit fingerprint of the whole case.",
    assumptions: &[
        "reference model (model.rs) encodes the documented definitions, incl. the empty-match iterator rule",
        "x86-64 with SSSE3/AVX2, features std+perf-literal",
        "enumerated sub-run is exhaustive only within its stated bounds",
    ],
    cases_quick: 720_000,
    cases_thorough: 6_000_000,
    strategy: c01_strategy,
    check: c01_check,
    extra: Some(c01_extra),
    floors: &[
        ("empty-pattern+long-companion", 5_000),
        ("kind:leftmost-first", 50_000),
        ("kind:leftmost-longest", 50_000),
        ("duplicate-patterns", 5_000),
        ("engine:low-contiguous", 10_000),
        ("engine:top-dfa", 10_000),
    ],
};

// ------------------------------------------------------------------ C02

fn c02_built(s: &Searcher, case: &Case, ctx: &mut Ctx) -> Result<(), String> {
    if case.cfg.mk != Mk::Standard {
        return Err("C02 case with a non-standard match kind (unsound case)".into());
    }
    let f = sem::check_semantics(s, case, Flags { find: true, iter: true, ..Flags::default() }, ctx)?;
    sem::common_classes(case, &f, ctx);
    if f.shared_end || f.later_start_earlier_end {
        ctx.nontrivial();
    }
    Ok(())
}

fn c02_check(case: &Case, ctx: &mut Ctx) -> Result<(), String> {
    build_and(case, ctx, c02_built)
}

fn c02_strategy(tier: Tier) -> BoxedStrategy<Case> {
    gen::search_case(SearchOpts {
        prop: "C02",
        cfg: CfgOpts { mks: vec![Mk::Standard], anchored: 0, casei: 1, ..CfgOpts::default() },
        pats: PatOpts { w_empty: 6, max_class: if tier == Tier::Thorough { 2 } else { 1 }, long: true, w_fanout: 1, ..PatOpts::default() },
        hay: HayOpts { size_class: 1 },
        full_span_only: false,
        alphabets: gen::default_alphabets(),
        no_empty: false,
    })
}

fn c02_extra(tier: Tier, _seed: u64, ctx: &mut Ctx) -> Result<bool, Violation> {
    let (p, l, h) = match tier {
        Tier::Quick => (2, 3, 5),
        Tier::Thorough => (3, 2, 6),
    };
    let scope = Scope {
        prop: "C02",
        alpha: b"ab".to_vec(),
        max_pats: p,
        max_pat_len: l,
        max_hay_len: h,
        cfgs: cfgs_for(&enum_engines(tier), &[Mk::Standard], false),
        anchored: vec![false],
        no_empty: false,
        full_span_only: false,
    };
    run_scope(&scope, c02_built, ctx)?;
    if tier == Tier::Thorough {
        let scope = Scope { max_pats: 2, max_pat_len: 4, max_hay_len: 7, ..scope };
        run_scope(&scope, c02_built, ctx)?;
    }
    Ok(true)
}

pub const C02: PropDef = PropDef {
    id: "C02",
    rule: "same generators and enumerated scope as C01, standard match kind only. Oracle: reference model find (argmin over (end, longest, supply order)) and iterator. \
Non-trivial = two occurrences in the span share an end offset, or one occurrence ends earlier but starts later than another. Distinct = distinct case fingerprint.",
    assumptions: &[
        "reference model encodes: standard = smallest end, longest at that end, first supplied among identical patterns",
        "enumerated sub-run is exhaustive only within its stated bounds",
    ],
    cases_quick: 720_000,
    cases_thorough: 6_000_000,
    strategy: c02_strategy,
    check: c02_check,
    extra: Some(c02_extra),
    floors: &[("empty-pattern", 10_000), ("duplicate-patterns", 5_000), ("engine:low-contiguous", 10_000)],
};

// ------------------------------------------------------------------ C03

fn c03_built(s: &Searcher, case: &Case, ctx: &mut Ctx) -> Result<(), String> {
    if case.cfg.mk != Mk::Standard {
        return Err("C03 case with a non-standard match kind (unsound case)".into());
    }
    let f = sem::check_semantics(s, case, Flags { overlapping: true, ..Flags::default() }, ctx)?;
    sem::common_classes(case, &f, ctx);
    if f.occurrences >= 2 && (f.shared_end || f.empty_with_long || f.duplicates) {
        ctx.nontrivial();
    }
    Ok(())
}

fn c03_check(case: &Case, ctx: &mut Ctx) -> Result<(), String> {
    build_and(case, ctx, c03_built)
}

fn c03_strategy(tier: Tier) -> BoxedStrategy<Case> {
    gen::search_case(SearchOpts {
        prop: "C03",
        cfg: CfgOpts { mks: vec![Mk::Standard], anchored: 0, casei: 1, ..CfgOpts::default() },
        pats: PatOpts { w_empty: 10, max_class: if tier == Tier::Thorough { 2 } else { 1 }, long: true, w_fanout: 1, ..PatOpts::default() },
        hay: HayOpts { size_class: 1 },
        full_span_only: false,
        alphabets: gen::default_alphabets(),
        no_empty: false,
    })
}

fn c03_extra(tier: Tier, _seed: u64, ctx: &mut Ctx) -> Result<bool, Violation> {
    let (p, l, h) = match tier {
        Tier::Quick => (2, 3, 5),
        Tier::Thorough => (3, 2, 6),
    };
    let scope = Scope {
        prop: "C03",
        alpha: b"ab".to_vec(),
        max_pats: p,
        max_pat_len: l,
        max_hay_len: h,
        cfgs: cfgs_for(&enum_engines(tier), &[Mk::Standard], false),
        anchored: vec![false],
        no_empty: false,
        full_span_only: false,
    };
    run_scope(&scope, c03_built, ctx)?;
    if tier == Tier::Thorough {
        let scope = Scope { max_pats: 2, max_pat_len: 4, max_hay_len: 7, ..scope };
        run_scope(&scope, c03_built, ctx)?;
    }
    Ok(true)
}

pub const C03: PropDef = PropDef {
    id: "C03",
    rule: "standard-kind configs x generated/enumerated pattern lists x haystacks x spans x a call history on one OverlappingState: \
step try_find_overlapping until it reports nothing, then 3 more steps (each must report nothing); separately drain find_overlapping_iter. \
Oracle: the exact sequence of all occurrences ordered by (end, longest first, supply order) - order, loss, duplication and invention all fail. \
Non-trivial = at least 2 occurrences and (two share an end offset, or the empty pattern coexists with a pattern of length >= 2, or duplicate patterns). Distinct = distinct case fingerprint.",
    assumptions: &[
        "reference model enumerates occurrences quadratically",
        "the 3 extra steps after exhaustion sample 'keeps reporting no match'",
    ],
    cases_quick: 720_000,
    cases_thorough: 6_000_000,
    strategy: c03_strategy,
    check: c03_check,
    extra: Some(c03_extra),
    floors: &[("empty-pattern+long-companion", 8_000), ("duplicate-patterns", 5_000)],
};

// ------------------------------------------------------------------ C09

fn c09_built(s: &Searcher, case: &Case, ctx: &mut Ctx) -> Result<(), String> {
    if !case.anchored {
        return Err("C09 case without anchoring (unsound case)".into());
    }
    let f = sem::check_semantics(
        s,
        case,
        Flags { find: true, iter: true, overlapping: true, is_match: true, earliest: true },
        ctx,
    )?;
    sem::common_classes(case, &f, ctx);
    if f.suffix_relation {
        ctx.class("suffix-relation");
    }
    if f.occ_after_start && f.suffix_relation {
        ctx.nontrivial();
    }
    Ok(())
}

fn c09_check(case: &Case, ctx: &mut Ctx) -> Result<(), String> {
    build_and(case, ctx, c09_built)
}

fn c09_strategy(tier: Tier) -> BoxedStrategy<Case> {
    gen::search_case(SearchOpts {
        prop: "C09",
        cfg: CfgOpts { anchored: 2, sks: vec![Sk::Anchored, Sk::Both], casei: 1, ..CfgOpts::default() },
        pats: PatOpts { w_empty: 5, max_class: if tier == Tier::Thorough { 2 } else { 1 }, long: true, w_fanout: 1, ..PatOpts::default() },
        hay: HayOpts { size_class: 1 },
        full_span_only: false,
        alphabets: gen::default_alphabets(),
        no_empty: false,
    })
}

fn c09_extra(tier: Tier, _seed: u64, ctx: &mut Ctx) -> Result<bool, Violation> {
    let (p, l, h) = match tier {
        Tier::Quick => (2, 3, 4),
        Tier::Thorough => (3, 2, 5),
    };
    let scope = Scope {
        prop: "C09",
        alpha: b"ab".to_vec(),
        max_pats: p,
        max_pat_len: l,
        max_hay_len: h,
        cfgs: cfgs_for(&enum_engines(tier), &Mk::ALL, false),
        anchored: vec![true],
        no_empty: false,
        full_span_only: false,
    };
    run_scope(&scope, c09_built, ctx)?;
    Ok(true)
}

pub const C09: PropDef = PropDef {
    id: "C09",
    rule: "anchored requests (start kind Anchored/Both, plus low-level NFAs) over all match kinds; pattern lists rich in proper-suffix relations; span start anywhere. \
Checked APIs: try_find, try_find_iter, stepwise try_find_overlapping (standard kind), is_match, earliest. Oracle: reference model restricted to occurrences starting at the search start. \
Non-trivial = an occurrence exists that starts after the search start and some pattern is a proper suffix of another (inherited matches exist). Distinct = distinct case fingerprint.",
    assumptions: &["reference model; anchored iterator = repeated anchored search with the empty-match rule"],
    cases_quick: 720_000,
    cases_thorough: 6_000_000,
    strategy: c09_strategy,
    check: c09_check,
    extra: Some(c09_extra),
    floors: &[("suffix-relation", 30_000), ("kind:standard", 40_000), ("engine:top-dfa", 10_000)],
};

// ------------------------------------------------------------------ C11

fn c11_built(s: &Searcher, case: &Case, ctx: &mut Ctx) -> Result<(), String> {
    if !case.cfg.casei {
        return Err("C11 case without ascii_case_insensitive (unsound case)".into());
    }
    let f = sem::check_semantics(s, case, Flags::ALL, ctx)?;
    sem::common_classes(case, &f, ctx);
    // near miss on a boundary byte: haystack contains one of @ [ ` { or a
    // byte >= 0x80 and some pattern contains a letter
    let boundary = case.haystack.iter().any(|b| matches!(*b, b'@' | b'[' | b'`' | b'{') || *b >= 0x80);
    if boundary {
        ctx.class("boundary-byte-in-haystack");
    }
    if f.folded_only_match {
        ctx.class("match-only-by-folding");
    }
    if f.folded_only_match || (boundary && f.occurrences > 0) {
        ctx.nontrivial();
    }
    Ok(())
}

fn c11_check(case: &Case, ctx: &mut Ctx) -> Result<(), String> {
    build_and(case, ctx, c11_built)
}

fn c11_strategy(_tier: Tier) -> BoxedStrategy<Case> {
    gen::search_case(SearchOpts {
        prop: "C11",
        cfg: CfgOpts { casei: 2, anchored: 1, ..CfgOpts::default() },
        pats: PatOpts { w_empty: 4, max_class: 1, long: true, w_shapes: 8, w_adversarial: 0, w_fanout: 1 },
        hay: HayOpts { size_class: 1 },
        full_span_only: false,
        alphabets: vec![(40, gen::ALPHA_CASE), (20, gen::ALPHA_LETTERMIX), (18, gen::ALPHA_HIGHCASE), (10, gen::ALPHA_TEXT), (7, gen::ALPHA_FULL), (5, gen::ALPHA_NYBBLE)],
        no_empty: false,
    })
}

fn c11_extra(tier: Tier, _seed: u64, ctx: &mut Ctx) -> Result<bool, Violation> {
    let (p, l, h) = match tier {
        Tier::Quick => (2, 2, 3),
        Tier::Thorough => (2, 2, 4),
    };
    let scope = Scope {
        prop: "C11",
        alpha: b"aA@".to_vec(),
        max_pats: p,
        max_pat_len: l,
        max_hay_len: h,
        cfgs: cfgs_for(&enum_engines(tier), &Mk::ALL, true),
        anchored: vec![false, true],
        no_empty: false,
        full_span_only: false,
    };
    run_scope(&scope, c11_built, ctx)?;
    Ok(true)
}

pub const C11: PropDef = PropDef {
    id: "C11",
    rule: "ascii_case_insensitive(true) searchers over mixed-case alphabets incl. the bytes adjacent to the letter ranges (@ [ ` {) and bytes >= 0x80 whose low bits look like letters; \
all of find/iter/overlapping/is_match/earliest, anchored and unanchored, against the reference model with A-Z folded to a-z on both sides; pattern ids must be those supplied. \
Enumerated: all lists of <=2 patterns of length <=2 over {a,A,@} x all haystacks x spans. \
Non-trivial = the reported match exists only because of folding (haystack bytes differ from the pattern bytes), or the haystack contains a boundary byte and there is at least one occurrence. Distinct = distinct case fingerprint.",
    assumptions: &["reference model folds exactly A-Z to a-z"],
    cases_quick: 720_000,
    cases_thorough: 6_000_000,
    strategy: c11_strategy,
    check: c11_check,
    extra: Some(c11_extra),
    floors: &[("match-only-by-folding", 20_000), ("boundary-byte-in-haystack", 20_000)],
};

// ------------------------------------------------------------------ C14

fn c14_built(s: &Searcher, case: &Case, ctx: &mut Ctx) -> Result<(), String> {
    let f = sem::check_semantics(
        s,
        case,
        Flags { find: true, is_match: true, earliest: true, ..Flags::default() },
        ctx,
    )?;
    sem::common_classes(case, &f, ctx);
    if f.earliest_differs {
        ctx.class("earliest-differs-from-normal");
    }
    if f.earliest_differs || (f.occurrences > 0 && case.cfg.prefilter && case.sub != "general") {
        ctx.nontrivial();
    }
    Ok(())
}

fn c14_check(case: &Case, ctx: &mut Ctx) -> Result<(), String> {
    build_and(case, ctx, c14_built)
}

fn c14_strategy(_tier: Tier) -> BoxedStrategy<Case> {
    gen::search_case(SearchOpts {
        prop: "C14",
        cfg: CfgOpts { anchored: 1, casei: 1, ..CfgOpts::default() },
        pats: PatOpts { w_empty: 5, max_class: 1, long: true, w_shapes: 6, w_adversarial: 1, w_fanout: 1 },
        hay: HayOpts { size_class: 2 },
        full_span_only: false,
        alphabets: gen::default_alphabets(),
        no_empty: false,
    })
}

fn c14_extra(tier: Tier, _seed: u64, ctx: &mut Ctx) -> Result<bool, Violation> {
    let (p, l, h) = match tier {
        Tier::Quick => (2, 3, 4),
        Tier::Thorough => (3, 2, 5),
    };
    let scope = Scope {
        prop: "C14",
        alpha: b"ab".to_vec(),
        max_pats: p,
        max_pat_len: l,
        max_hay_len: h,
        cfgs: cfgs_for(&[Engine::TopAuto, Engine::TopNc, Engine::TopC, Engine::TopDfa], &Mk::ALL, false),
        anchored: vec![false, true],
        no_empty: false,
        full_span_only: false,
    };
    run_scope(&scope, c14_built, ctx)?;
    Ok(true)
}

pub const C14: PropDef = PropDef {
    id: "C14",
    rule: "all match kinds, anchoring modes, engines and prefilter-shaped pattern lists. Oracle: is_match == find.is_some() == (model occurrence set non-empty under the anchoring); \
earliest mode returns a genuine occurrence whose end is <= the end of the normal match, None iff the normal search is None, equal to the normal result under standard semantics. \
Non-trivial = the earliest result differs from the normal result, or a prefilter-shaped pattern list with the prefilter enabled has at least one occurrence. Distinct = distinct case fingerprint.",
    assumptions: &["earliest is checked as a validity predicate (several answers are allowed)"],
    cases_quick: 600_000,
    cases_thorough: 6_000_000,
    strategy: c14_strategy,
    check: c14_check,
    extra: Some(c14_extra),
    floors: &[("earliest-differs-from-normal", 5_000), ("anchored", 20_000)],
};

#[allow(dead_code)]
fn _unused(_: &Facts) {}
