//! C06 (packed searchers equal the leftmost definition) and C15 (no
//! out-of-bounds access, no panic; guard pages in child processes).

use std::path::{Path, PathBuf};

use aho_corasick::packed;
use aho_corasick::Span;
use proptest::prelude::*;
use proptest::strategy::{BoxedStrategy, Union, ValueTree};
use proptest::test_runner::{Config, TestRunner};

use crate::case::{Case, Cfg, Mk, PackedCfg, PackedVariant, Sk};
use crate::engine::{guard, input, prefilter_class, to_m, Searcher};
use crate::gen::{self, CfgOpts, HayOpts, PatOpts, SearchOpts};
use crate::model::{Occ, M};
use crate::runner::{self, Ctx, PropDef, Tier, Violation, WORKERS};
use crate::sem;

pub fn build_packed(pc: &PackedCfg, pats: &[Vec<u8>]) -> Result<Option<packed::Searcher>, String> {
    guard(|| {
        let _suspend = crate::engine::SuspendBudget::new();
        let mut config = packed::Config::new();
        config
            .match_kind(if pc.leftmost_longest { packed::MatchKind::LeftmostLongest } else { packed::MatchKind::LeftmostFirst })
            .heuristic_pattern_limits(pc.heuristic_limits);
        match pc.variant {
            PackedVariant::Default => {}
            PackedVariant::RabinKarp => {
                config.only_rabin_karp(true);
            }
            PackedVariant::Slim128 => {
                config.only_teddy(true).only_teddy_256bit(Some(false)).only_teddy_fat(Some(false));
            }
            PackedVariant::Slim256 => {
                config.only_teddy(true).only_teddy_256bit(Some(true)).only_teddy_fat(Some(false));
            }
            PackedVariant::Fat256 => {
                config.only_teddy(true).only_teddy_256bit(Some(true)).only_teddy_fat(Some(true));
            }
        }
        config.builder().extend(pats.iter()).build()
    })
    .map_err(|p| format!("packed build panicked: {}", p))
}

fn variant_name(v: PackedVariant) -> &'static str {
    match v {
        PackedVariant::Default => "default",
        PackedVariant::RabinKarp => "rabinkarp",
        PackedVariant::Slim128 => "slim128",
        PackedVariant::Slim256 => "slim256",
        PackedVariant::Fat256 => "fat256",
    }
}

fn fingerprint_collision(pats: &[Vec<u8>], mask_len: usize) -> bool {
    for (i, p) in pats.iter().enumerate().take(64) {
        for q in pats.iter().skip(i + 1).take(64) {
            let a = &p[..mask_len.min(p.len())];
            let b = &q[..mask_len.min(q.len())];
            if a.len() == b.len() && a != b && a.iter().zip(b).all(|(x, y)| x & 0xF == y & 0xF) {
                return true;
            }
        }
    }
    false
}

/// The semantic check shared by C06 and C15 for one packed searcher.
fn packed_semantics(
    ps: &packed::Searcher,
    pc: &PackedCfg,
    pats: &[Vec<u8>],
    hay: &[u8],
    span: (usize, usize),
    full_model: bool,
) -> Result<Option<M>, String> {
    let mk = if pc.leftmost_longest { Mk::LeftmostLongest } else { Mk::LeftmostFirst };
    let sp = Span { start: span.0, end: span.1 };
    let got = guard(|| ps.find_in(hay, sp)).map_err(|p| format!("packed find_in panicked: {}", p))?.map(to_m);
    if let Some(m) = got {
        sem::post_conditions("packed find_in", m, pats.len(), hay.len(), span)?;
    }
    let it: Vec<M> = guard(|| ps.find_iter(hay).take(hay.len() + 3).map(to_m).collect()).map_err(|p| format!("packed find_iter panicked: {}", p))?;
    for m in &it {
        sem::post_conditions("packed find_iter", *m, pats.len(), hay.len(), (0, hay.len()))?;
    }
    let whole = guard(|| ps.find(hay)).map_err(|p| format!("packed find panicked: {}", p))?.map(to_m);
    if full_model {
        let occ = Occ::new(pats, hay, false);
        let want = occ.find(mk, span.0, span.1, false);
        if got != want {
            return Err(format!("packed find_in: expected {:?}, got {:?}", want, got));
        }
        let want_it = occ.iter(mk, 0, hay.len(), false);
        if it != want_it {
            let k = it.iter().zip(want_it.iter()).take_while(|(a, b)| a == b).count();
            return Err(format!(
                "packed find_iter: sequences differ at index {}: expected {:?}, got {:?} (lens {} vs {})",
                k,
                want_it.get(k),
                it.get(k),
                want_it.len(),
                it.len()
            ));
        }
        let want_whole = occ.find(mk, 0, hay.len(), false);
        if whole != want_whole {
            return Err(format!("packed find: expected {:?}, got {:?}", want_whole, whole));
        }
    }
    Ok(got)
}

fn c06_check(case: &Case, ctx: &mut Ctx) -> Result<(), String> {
    if case.sub.starts_with("scenario:giant-packed-pattern") {
        let mut c = Ctx::default();
        return giant_pattern_scenario("C06", &mut c).map_err(|v| v.reason);
    }
    let pc = case.packed.as_ref().ok_or("C06 case without packed config")?;
    if case.patterns.iter().any(|p| p.is_empty()) || case.span.0 > case.span.1 {
        return Err("unsound C06 case (empty pattern or start > end)".into());
    }
    let ps = match build_packed(pc, &case.patterns)? {
        Some(ps) => ps,
        None => {
            ctx.class("not-built");
            return Ok(());
        }
    };
    let hay = &case.haystack[..];
    let got = packed_semantics(&ps, pc, &case.patterns, hay, case.span, true)?;
    let minlen = case.patterns.iter().map(|p| p.len()).min().unwrap_or(0);
    let mask = minlen.min(4);
    let vname = variant_name(pc.variant);
    ctx.class(&format!("variant:{}/mask{}", vname, mask));
    let span_len = case.span.1 - case.span.0;
    let teddy_path = pc.variant != PackedVariant::RabinKarp && span_len >= ps.minimum_len();
    if pc.variant != PackedVariant::RabinKarp {
        ctx.class(if teddy_path { "path:teddy" } else { "path:rabinkarp-fallback" });
    }
    if teddy_path {
        ctx.class(&format!("teddy:{}/mask{}", vname, mask));
    }
    let collide = fingerprint_collision(&case.patterns, mask.max(1));
    if collide {
        ctx.class("fingerprint-collision");
    }
    match case.patterns.len() {
        1 => ctx.class("npats:1"),
        2..=8 => ctx.class("npats:2-8"),
        9..=16 => ctx.class("npats:9-16"),
        17..=64 => ctx.class("npats:17-64"),
        _ => ctx.class("npats:65-128"),
    }
    ctx.class(&format!("gen:{}", case.sub));
    if pc.leftmost_longest {
        ctx.class("kind:leftmost-longest");
    } else {
        ctx.class("kind:leftmost-first");
    }
    let late = got.map_or(false, |m| m.start >= case.span.0 + 16);
    if late {
        ctx.class("match-not-in-first-window");
    }
    if let Some(m) = got {
        // the match lies in the final window
        if case.span.1 - m.end < 16 && span_len >= 32 {
            ctx.class("match-in-final-window");
        }
    }
    if case.patterns.len() >= 2 && got.is_some() && (teddy_path || pc.variant == PackedVariant::RabinKarp) && (late || collide) {
        ctx.nontrivial();
    }
    Ok(())
}

fn enforce_minlen(pats: &mut Vec<Vec<u8>>, minlen: usize) {
    for p in pats.iter_mut() {
        let orig = p.clone();
        let mut i = 0;
        while p.len() < minlen {
            p.push(orig[i % orig.len()]);
            i += 1;
        }
    }
}

fn packed_cfg_strategy() -> BoxedStrategy<PackedCfg> {
    (
        prop_oneof![
            2 => Just(PackedVariant::Default),
            2 => Just(PackedVariant::RabinKarp),
            3 => Just(PackedVariant::Slim128),
            3 => Just(PackedVariant::Slim256),
            3 => Just(PackedVariant::Fat256),
        ],
        any::<bool>(),
        prop_oneof![7 => Just(false), 1 => Just(true)],
    )
        .prop_map(|(variant, leftmost_longest, heuristic_limits)| PackedCfg { variant, leftmost_longest, heuristic_limits })
        .boxed()
}

#[derive(Clone, Debug)]
enum HayMode {
    Planted { k: u8, t: u8, which: u16, filler: u8, second: Option<(u8, u16)> },
    General,
}

fn c06_strategy(tier: Tier) -> BoxedStrategy<Case> {
    let base = |size_class: u8| {
        gen::search_case(SearchOpts {
            prop: "C06",
            cfg: CfgOpts { engines: vec![crate::case::Engine::TopAuto], mks: vec![Mk::LeftmostFirst], sks: vec![Sk::Unanchored], anchored: 0, casei: 0, ..CfgOpts::default() },
            pats: PatOpts { w_empty: 0, max_class: 2, long: true, w_shapes: 2, w_adversarial: 1, w_fanout: 1 },
            hay: HayOpts { size_class },
            full_span_only: false,
            alphabets: vec![
                (30, gen::ALPHA_NYBBLE),
                (18, gen::ALPHA_FULL),
                (14, gen::ALPHA_ABCX),
                (10, gen::ALPHA_AB),
                (14, gen::ALPHA_TEXT),
                (8, gen::ALPHA_CASE),
                (6, gen::ALPHA_UTF8),
            ],
            no_empty: true,
        })
    };
    let big = if tier == Tier::Thorough { 3 } else { 2 };
    let cases = Union::new_weighted(vec![(5, base(1)), (3, base(2)), (2, base(big))]);
    let mode = prop_oneof![
        6 => (0u8..=90, 0u8..=70, any::<u16>(), any::<u8>(), proptest::option::weighted(0.3, (0u8..=40, any::<u16>())))
            .prop_map(|(k, t, which, filler, second)| HayMode::Planted { k, t, which, filler, second }),
        4 => Just(HayMode::General),
    ];
    (cases, packed_cfg_strategy(), prop_oneof![2 => Just(1usize), 3 => Just(2usize), 3 => Just(3usize), 3 => Just(4usize), 1 => Just(6usize)], mode, gen::span_recipe(false))
        .prop_map(|(mut case, pc, minlen, mode, sr)| {
            case.patterns.truncate(128);
            enforce_minlen(&mut case.patterns, minlen);
            if let HayMode::Planted { k, t, which, filler, second } = mode {
                let n = case.patterns.len();
                let p = case.patterns[(which as usize * n) >> 16].clone();
                // a filler byte that is not the first byte of any pattern, if
                // one exists near the requested value
                let mut f = filler;
                for d in 0..=255u8 {
                    let c = filler.wrapping_add(d);
                    if case.patterns.iter().all(|q| q[0] != c) {
                        f = c;
                        break;
                    }
                }
                let mut h = vec![f; k as usize];
                h.extend_from_slice(&p);
                if let Some((gap, w2)) = second {
                    h.extend(std::iter::repeat(f).take(gap as usize));
                    h.extend_from_slice(&case.patterns[(w2 as usize * n) >> 16]);
                }
                h.extend(std::iter::repeat(f).take(t as usize));
                case.haystack = h;
                case.sub = format!("{}+planted", case.sub);
            }
            let (mut s, mut e) = gen::realize_span(sr, case.haystack.len());
            if s > e {
                s = e;
                e = s;
            }
            case.span = (s, e);
            case.packed = Some(pc);
            case
        })
        .boxed()
}

/// Deterministic scenario: a packed searcher holding one very long pattern
/// (64 KiB and 64 KiB + 100 bytes) next to a short one. Lengths above 65535
/// do not fit 16-bit bookkeeping; expectations are known by construction.
fn giant_pattern_scenario(prop: &str, ctx: &mut Ctx) -> Result<(), Violation> {
    let mut sd = 0x2545f4914f6cdd1du64;
    for plen in [65_536usize, 65_636] {
        let p: Vec<u8> = (0..plen)
            .map(|_| {
                sd = sd.wrapping_mul(6364136223846793005).wrapping_add(1442695040888963407);
                1 + ((sd >> 33) % 200) as u8
            })
            .collect();
        let short = vec![0xFEu8, 0xFD, 0xFC];
        let pats = vec![p.clone(), short.clone()];
        let mut h1 = vec![0xFFu8; 50];
        h1.extend_from_slice(&p[..100]);
        h1.extend(std::iter::repeat(0xFF).take(150));
        let mut h2 = vec![0xFFu8; 10];
        h2.extend_from_slice(&p);
        h2.extend(std::iter::repeat(0xFF).take(5));
        h2.extend_from_slice(&short);
        let expect2 = vec![M { pat: 0, start: 10, end: 10 + plen }, M { pat: 1, start: 15 + plen, end: 18 + plen }];
        for variant in [PackedVariant::Default, PackedVariant::Slim128, PackedVariant::Fat256, PackedVariant::RabinKarp] {
            for ll in [false, true] {
                let pc = PackedCfg { variant, leftmost_longest: ll, heuristic_limits: false };
                let stand_in = Case { prop: prop.to_string(), sub: format!("scenario:giant-packed-pattern:{}", plen), packed: Some(pc.clone()), params: vec![plen as i64], ..Case::default() };
                let fail = |reason: String| Violation { case: stand_in.clone(), reason };
                let ps = match build_packed(&pc, &pats).map_err(|e| fail(e))? {
                    Some(ps) => ps,
                    None => continue,
                };
                let r1 = guard(|| ps.find_iter(&h1).take(8).map(to_m).collect::<Vec<M>>()).map_err(|p| fail(format!("giant pattern ({} bytes, {:?}): panic on a haystack holding only its first 100 bytes: {}", plen, variant, p)))?;
                if !r1.is_empty() {
                    return Err(fail(format!("giant pattern ({} bytes, {:?}): matches {:?} reported in a 300-byte haystack that holds only the first 100 bytes of the pattern", plen, variant, r1)));
                }
                let r2 = guard(|| ps.find_iter(&h2).take(8).map(to_m).collect::<Vec<M>>()).map_err(|p| fail(format!("giant pattern ({} bytes, {:?}): panic: {}", plen, variant, p)))?;
                if r2 != expect2 {
                    return Err(fail(format!("giant pattern ({} bytes, {:?}, leftmost_longest={}): expected {:?}, got {:?}", plen, variant, ll, expect2, r2)));
                }
                ctx.begin();
                ctx.nontrivial();
                ctx.class(&format!("scenario:giant-packed-pattern/{}", variant_name(variant)));
                ctx.end(&stand_in);
                ctx.enumerated += 1;
            }
        }
    }
    Ok(())
}

/// Deterministic sweep: every haystack length 0..=2V+8 and every plant
/// offset, for every variant x mask length, on fixed colliding pattern sets.
fn c06_extra(tier: Tier, _seed: u64, ctx: &mut Ctx) -> Result<bool, Violation> {
    giant_pattern_scenario("C06", ctx)?;
    let families: Vec<Vec<Vec<u8>>> = vec![
        // same low nybbles, different high nybbles
        vec![vec![0x41, 0x42, 0x43, 0x44, 0x45], vec![0x51, 0x52, 0x53, 0x54], vec![0x61, 0x62, 0x63, 0x64, 0x65, 0x66], vec![0x41, 0x52, 0x63, 0x74]],
        // one pattern a prefix of another, across buckets
        vec![b"abcd".to_vec(), b"abcdefg".to_vec(), b"bcde".to_vec(), b"cdefgh".to_vec(), b"abcx".to_vec()],
        // > 8 distinct fingerprints
        (0..12u8).map(|i| vec![b'a' + i, b'A' + i, b'0' + (i % 10), b'z' - i]).collect(),
        // > 16 distinct fingerprints, min len 4
        (0..20u8).map(|i| vec![0x30 + i, 0x50 + i, 0x21 + i, 0x61 + (i % 26), b'!']).collect(),
    ];
    let variants = [PackedVariant::RabinKarp, PackedVariant::Slim128, PackedVariant::Slim256, PackedVariant::Fat256, PackedVariant::Default];
    let max_len = if tier == Tier::Thorough { 2 * 32 + 40 } else { 2 * 32 + 8 };
    let mut tasks: Vec<(Vec<Vec<u8>>, usize, PackedCfg)> = Vec::new();
    for fam in &families {
        for mask in 1..=4usize {
            // truncate the shortest pattern to force the mask length
            let mut pats: Vec<Vec<u8>> = fam.clone();
            let shortest = pats.iter_mut().min_by_key(|p| p.len()).unwrap();
            shortest.truncate(mask);
            for &variant in &variants {
                for ll in [false, true] {
                    tasks.push((pats.clone(), mask, PackedCfg { variant, leftmost_longest: ll, heuristic_limits: false }));
                }
            }
        }
    }
    let chunk = (tasks.len() + WORKERS as usize - 1) / WORKERS as usize;
    let results: Vec<(Ctx, Option<Violation>)> = std::thread::scope(|sc| {
        let hs: Vec<_> = tasks
            .chunks(chunk)
            .map(|part| {
                sc.spawn(move || {
                    let mut ctx = Ctx::default();
                    for (pats, mask, pc) in part {
                        let ps = match build_packed(pc, pats) {
                            Ok(Some(ps)) => ps,
                            Ok(None) => continue,
                            Err(e) => {
                                return (ctx, Some(Violation { case: Case { prop: "C06".into(), sub: "sweep".into(), patterns: pats.clone(), packed: Some(pc.clone()), ..Case::default() }, reason: e }))
                            }
                        };
                        for len in 0..=max_len {
                            for p in pats.iter() {
                                if p.len() > len {
                                    continue;
                                }
                                for off in 0..=(len - p.len()) {
                                    let mut h = vec![b'~'; len];
                                    h[off..off + p.len()].copy_from_slice(p);
                                    let case = Case {
                                        prop: "C06".into(),
                                        sub: "sweep".into(),
                                        patterns: pats.clone(),
                                        haystack: h,
                                        span: (0, len),
                                        packed: Some(pc.clone()),
                                        ..Case::default()
                                    };
                                    ctx.begin();
                                    let r = packed_semantics(&ps, pc, pats, &case.haystack, case.span, true);
                                    if off >= 16 {
                                        ctx.nontrivial();
                                    }
                                    ctx.class(&format!("sweep:{}/mask{}", variant_name(pc.variant), mask));
                                    ctx.end(&case);
                                    ctx.enumerated += 1;
                                    if let Err(reason) = r {
                                        return (ctx, Some(Violation { case, reason }));
                                    }
                                }
                            }
                        }
                    }
                    (ctx, None)
                })
            })
            .collect();
        hs.into_iter().map(|h| h.join().expect("sweep worker")).collect()
    });
    let mut violation = None;
    for (c, v) in results {
        ctx.merge(c);
        if violation.is_none() {
            violation = v;
        }
    }
    match violation {
        Some(v) => Err(v),
        None => Ok(true),
    }
}

pub const C06: PropDef = PropDef {
    id: "C06",
    rule: "non-empty pattern lists of 1..128 patterns with forced minimum length 1/2/3/4/6 (selects the Teddy mask length), nybble-colliding alphabets, derived (prefix/suffix/duplicate) patterns; \
variant forced through the hidden Config knobs: Rabin-Karp, slim Teddy 128-bit, slim Teddy 256-bit, fat Teddy 256-bit, default; both match kinds; \
haystacks: a pattern planted at every offset 0..90 in filler (optionally a second one) with 0..70 trailing bytes, or the general piece-built haystack up to 400 (thorough 4K) bytes; random spans. \
Oracle: reference model leftmost-first/-longest find for find_in/find and the model iterator for find_iter. \
Deterministic scenario: one pattern of 65536 / 65636 bytes next to a short one, every forced variant, expectations known by construction. Deterministic sweep (enumerated): 4 fixed colliding families x mask length 1..4 x 5 variants x 2 kinds x every haystack length 0..72 x every pattern x every plant offset. \
Non-trivial = >= 2 patterns, a match exists, the intended algorithm ran (span length >= minimum_len for Teddy) and (the match starts >= 16 bytes into the span or two patterns collide in their low-nybble fingerprint). Distinct = distinct case fingerprint.",
    assumptions: &["x86-64 with SSSE3 and AVX2 (all 12 Teddy variants constructible); aarch64 NEON not exercised", "reference model"],
    cases_quick: 600_000,
    cases_thorough: 5_000_000,
    strategy: c06_strategy,
    check: c06_check,
    extra: Some(c06_extra),
    floors: &[
        ("teddy:slim128/mask1", 300),
        ("teddy:slim128/mask2", 300),
        ("teddy:slim128/mask3", 300),
        ("teddy:slim128/mask4", 300),
        ("teddy:slim256/mask1", 300),
        ("teddy:slim256/mask2", 300),
        ("teddy:slim256/mask3", 300),
        ("teddy:slim256/mask4", 300),
        ("teddy:fat256/mask1", 300),
        ("teddy:fat256/mask2", 300),
        ("teddy:fat256/mask3", 300),
        ("teddy:fat256/mask4", 300),
        ("variant:rabinkarp/mask1", 300),
        ("variant:rabinkarp/mask4", 300),
        ("fingerprint-collision", 20_000),
        ("match-in-final-window", 5_000),
        ("npats:65-128", 1_000),
    ],
};

// ------------------------------------------------------------------ C15

/// A memory region with an inaccessible page directly after (right-flush)
/// or directly before (left-flush) the data area.
pub struct Guarded {
    base: *mut u8,
    map_len: usize,
    data_len: usize,
    page: usize,
    guard_after: bool,
}

impl Guarded {
    pub fn new(data_pages: usize, guard_after: bool) -> Guarded {
        unsafe {
            let page = libc::sysconf(libc::_SC_PAGESIZE) as usize;
            let data_len = data_pages * page;
            let map_len = data_len + page;
            let base = libc::mmap(
                std::ptr::null_mut(),
                map_len,
                libc::PROT_READ | libc::PROT_WRITE,
                libc::MAP_PRIVATE | libc::MAP_ANONYMOUS,
                -1,
                0,
            );
            assert!(base != libc::MAP_FAILED, "mmap failed");
            let base = base as *mut u8;
            let guard = if guard_after { base.add(data_len) } else { base };
            let rc = libc::mprotect(guard as *mut libc::c_void, page, libc::PROT_NONE);
            assert_eq!(rc, 0, "mprotect failed");
            Guarded { base, map_len, data_len, page, guard_after }
        }
    }

    /// Copy `bytes` flush against the guard page and return the slice.
    pub fn place<'a>(&'a mut self, bytes: &[u8]) -> &'a [u8] {
        assert!(bytes.len() <= self.data_len);
        unsafe {
            let dst = if self.guard_after {
                self.base.add(self.data_len - bytes.len())
            } else {
                self.base.add(self.page)
            };
            std::ptr::copy_nonoverlapping(bytes.as_ptr(), dst, bytes.len());
            std::slice::from_raw_parts(dst, bytes.len())
        }
    }
}

impl Drop for Guarded {
    fn drop(&mut self) {
        unsafe {
            libc::munmap(self.base as *mut libc::c_void, self.map_len);
        }
    }
}

pub struct Regions {
    pub after: Guarded,
    pub before: Guarded,
}

impl Regions {
    pub fn new() -> Regions {
        Regions { after: Guarded::new(16, true), before: Guarded::new(16, false) }
    }
}

/// Run every search/replace API on the haystack placed against the guard
/// pages. Any out-of-bounds access kills the process with SIGSEGV (seen by
/// the parent); panics and post-condition failures are returned as Err.
pub fn c15_inproc(case: &Case, regions: &mut Regions, ctx: &mut Ctx) -> Result<(), String> {
    if case.sub.starts_with("scenario:giant-packed-pattern") {
        let mut c = Ctx::default();
        return giant_pattern_scenario("C15", &mut c).map_err(|v| v.reason);
    }
    let cfg = &case.cfg;
    if !cfg.supports_anchored(case.anchored) || case.haystack.len() > 60_000 {
        return Err("unsound C15 case".into());
    }
    let npats = case.patterns.len();
    let s = Searcher::build(cfg, &case.patterns)?;
    let packed = match &case.packed {
        Some(pc) if npats > 0 && npats <= 128 && case.patterns.iter().all(|p| !p.is_empty()) => build_packed(pc, &case.patterns)?.map(|ps| (pc.clone(), ps)),
        _ => None,
    };
    let std_kind = cfg.mk == Mk::Standard;
    let repl: Vec<Vec<u8>> = (0..npats).map(|i| vec![b'0' + (i % 10) as u8; i % 3]).collect();
    let mut teddy_ran = false;
    for which in 0..2 {
        let hay: &[u8] = if which == 0 { regions.after.place(&case.haystack) } else { regions.before.place(&case.haystack) };
        let span = case.span;
        let w = if which == 0 { "guard-after" } else { "guard-before" };
        let pc_ = |what: &str, m: M, sp: (usize, usize)| sem::post_conditions(&format!("{} {}", w, what), m, npats, hay.len(), sp);
        let e = |what: &str, e: aho_corasick::MatchError| format!("{} {}: supported request returned Err({})", w, what, e);
        let r = guard(|| -> Result<(), String> {
            if let Some(m) = s.try_find(input(hay, span, case.anchored, false)).map_err(|x| e("find", x))? {
                pc_("find", m, span)?;
            }
            if let Some(m) = s.try_find(input(hay, span, case.anchored, true)).map_err(|x| e("earliest", x))? {
                pc_("earliest", m, span)?;
            }
            for m in s.try_find_iter(input(hay, span, case.anchored, false)).map_err(|x| e("iter", x))? {
                pc_("iter", m, span)?;
            }
            if std_kind {
                for m in s.overlapping_steps(input(hay, span, case.anchored, false), 1, 1_000_000).map_err(|x| e("overlapping", x))? {
                    pc_("overlapping", m, span)?;
                }
            }
            if let Searcher::Top(a) = &s {
                let _ = a.is_match(input(hay, span, case.anchored, false));
            }
            if cfg.supports_anchored(false) {
                let out = s.replace_all_bytes(hay, &repl).map_err(|x| e("replace_all_bytes", x))?;
                let _ = out.len();
                if let Ok(text) = std::str::from_utf8(hay) {
                    let repl_s: Vec<String> = (0..npats).map(|i| "r".repeat(i % 3)).collect();
                    let out = s.replace_all_str(text, &repl_s).map_err(|x| e("replace_all (str)", x))?;
                    if std::str::from_utf8(out.as_bytes()).is_err() {
                        return Err(format!("{} replace_all (str) produced invalid UTF-8", w));
                    }
                    let mut dst = String::new();
                    s.replace_all_with_str(text, &mut dst, |_, _, d| {
                        d.push('x');
                        true
                    })
                    .map_err(|x| e("replace_all_with (str)", x))?;
                }
                if std_kind && npats > 0 && case.patterns.iter().all(|p| !p.is_empty()) {
                    for it in s.stream_find(hay).map_err(|x| e("stream_find_iter", x))? {
                        let m = it.map_err(|io| format!("{} stream: io error {}", w, io))?;
                        pc_("stream", m, (0, hay.len()))?;
                    }
                }
            }
            Ok(())
        });
        match r {
            Ok(r) => r?,
            Err(p) => return Err(format!("{}: panic: {}", w, p)),
        }
        if let Some((pc, ps)) = &packed {
            if span.0 <= span.1 {
                packed_semantics(ps, pc, &case.patterns, hay, span, false).map_err(|e| format!("{}: {}", w, e))?;
                if pc.variant != PackedVariant::RabinKarp && span.1 - span.0 >= ps.minimum_len() {
                    teddy_ran = true;
                }
            }
        }
    }
    ctx.class(sem::engine_class(cfg.engine));
    ctx.class(sem::mk_class(cfg.mk));
    if let Some(pc) = &case.packed {
        if packed.is_some() {
            ctx.class(&format!("packed:{}", variant_name(pc.variant)));
        }
    }
    if cfg.prefilter {
        ctx.class(&format!("prefilter:{}", prefilter_class(cfg, &case.patterns)));
    }
    let n = case.haystack.len();
    match n {
        0 => ctx.class("hay:0"),
        1..=15 => ctx.class("hay:1-15"),
        16..=64 => ctx.class("hay:16-64"),
        65..=160 => ctx.class("hay:65-160"),
        _ => ctx.class("hay:161+"),
    }
    let near_vector = n >= 13 && ((n + 3) % 16 <= 6);
    if near_vector {
        ctx.class("len-within-3-of-vector-multiple");
    }
    if std::str::from_utf8(&case.haystack).is_err() {
        ctx.class("invalid-utf8");
    } else if !case.haystack.is_ascii() {
        ctx.class("valid-non-ascii-utf8 (str replace APIs run)");
    }
    if teddy_ran {
        ctx.class("teddy-path");
    }
    if teddy_ran || near_vector {
        ctx.nontrivial();
    }
    Ok(())
}

fn c15_strategy(tier: Tier) -> BoxedStrategy<Case> {
    let base = |size_class: u8, no_empty: bool| {
        gen::search_case(SearchOpts {
            prop: "C15",
            cfg: CfgOpts { anchored: 1, casei: 1, ..CfgOpts::default() },
            pats: PatOpts { w_empty: 2, max_class: 1, long: false, w_shapes: 10, w_adversarial: 1, w_fanout: 1 },
            hay: HayOpts { size_class },
            full_span_only: false,
            alphabets: vec![(40, gen::ALPHA_FULL), (15, gen::ALPHA_NYBBLE), (15, gen::ALPHA_TEXT), (10, gen::ALPHA_UTF8), (10, gen::ALPHA_ABCX), (10, gen::ALPHA_CASE)],
            no_empty,
        })
    };
    let big = if tier == Tier::Thorough { 3 } else { 2 };
    let cases = Union::new_weighted(vec![(4, base(1, false)), (3, base(1, true)), (2, base(2, true)), (1, base(big, false))]);
    // exact haystack length: cycle through 0..=160 by resizing, so that every
    // length class around the vector widths is hit
    (cases, packed_cfg_strategy(), proptest::option::weighted(0.6, 0usize..=160), any::<u8>(), gen::span_recipe(false))
        .prop_map(|(mut case, pc, exact_len, fill, sr)| {
            if let Some(n) = exact_len {
                let h = &mut case.haystack;
                if h.len() > n {
                    h.truncate(n);
                } else {
                    let mut i = 0usize;
                    while h.len() < n {
                        let b = if h.is_empty() { fill } else { h[i % h.len()] ^ (fill & 1) };
                        h.push(b);
                        i += 1;
                    }
                }
                case.span = gen::realize_span(sr, case.haystack.len());
            }
            if case.haystack.len() > 50_000 {
                case.haystack.truncate(50_000);
                case.span = gen::realize_span(sr, case.haystack.len());
            }
            case.packed = Some(pc);
            // every 8th case: a valid UTF-8 haystack over multi-byte characters
            // (the &str replace routines must not panic on byte patterns that
            // split characters)
            if fill % 8 == 0 {
                const CHARS: &[char] = &['a', 'é', '€', '😀', '\u{7ff}', '\u{800}', '\u{ffff}', '\u{10000}', '\u{100000}', '\u{10ffff}', 'b'];
                let text: String = case.haystack.iter().take(40).map(|&b| CHARS[b as usize % CHARS.len()]).collect();
                case.haystack = text.into_bytes();
                case.span = gen::realize_span(sr, case.haystack.len());
                case.sub = format!("{}+utf8", case.sub);
            }
            case
        })
        .boxed()
}

fn scratch_dir() -> PathBuf {
    let d = runner::verif_root().join("harness").join("target").join("c15-scratch");
    let _ = std::fs::create_dir_all(&d);
    d
}

const CRUMB_LEN: usize = 1 << 20;

struct Crumb {
    ptr: *mut u8,
}

impl Crumb {
    fn open(path: &Path) -> Crumb {
        unsafe {
            let f = std::fs::OpenOptions::new().read(true).write(true).create(true).truncate(true).open(path).expect("crumb file");
            f.set_len(CRUMB_LEN as u64).expect("crumb len");
            use std::os::unix::io::AsRawFd;
            let p = libc::mmap(std::ptr::null_mut(), CRUMB_LEN, libc::PROT_READ | libc::PROT_WRITE, libc::MAP_SHARED, f.as_raw_fd(), 0);
            assert!(p != libc::MAP_FAILED);
            Crumb { ptr: p as *mut u8 }
        }
    }
    fn write(&mut self, bytes: &[u8]) {
        let n = bytes.len().min(CRUMB_LEN - 8);
        unsafe {
            std::ptr::copy_nonoverlapping(bytes.as_ptr(), self.ptr.add(8), n);
            std::ptr::copy_nonoverlapping((n as u64).to_le_bytes().as_ptr(), self.ptr, 8);
        }
    }
    fn read_file(path: &Path) -> Option<Vec<u8>> {
        let b = std::fs::read(path).ok()?;
        if b.len() < 8 {
            return None;
        }
        let n = u64::from_le_bytes(b[..8].try_into().ok()?) as usize;
        b.get(8..8 + n).map(|s| s.to_vec())
    }
}

thread_local! {
    static FUZZ_REGIONS: std::cell::RefCell<Option<Regions>> = std::cell::RefCell::new(None);
}

/// In-process variant for the ASan fuzz target: guard pages (a fault is a
/// crash artifact) plus an exact-size heap copy of the haystack so that ASan
/// sees any access past either end.
pub fn c15_fuzz_check(case: &Case, ctx: &mut Ctx) -> Result<(), String> {
    FUZZ_REGIONS.with(|r| {
        let mut r = r.borrow_mut();
        if r.is_none() {
            *r = Some(Regions::new());
        }
        c15_inproc(case, r.as_mut().unwrap(), ctx)
    })?;
    // exact-size heap allocation
    let exact: Box<[u8]> = case.haystack.clone().into_boxed_slice();
    let s = Searcher::build(&case.cfg, &case.patterns)?;
    let _ = guard(|| s.try_find_iter(input(&exact, case.span, case.anchored, false))).map_err(|p| format!("exact-size: panic {}", p))?;
    if let Some(pc) = &case.packed {
        if !case.patterns.is_empty() && case.patterns.len() <= 128 && case.patterns.iter().all(|p| !p.is_empty()) && case.span.0 <= case.span.1 {
            if let Some(ps) = build_packed(pc, &case.patterns)? {
                packed_semantics(&ps, pc, &case.patterns, &exact, case.span, true)?;
            }
        }
    }
    Ok(())
}

/// Child process body: `acverif c15-child <tier> <seed> <worker> <cases> <out> <crumb>`.
pub fn c15_child(tier: Tier, seed: u64, worker: u64, cases: u64, out: &Path, crumb_path: &Path) -> i32 {
    let mut crumb = Crumb::open(crumb_path);
    let mut regions = Regions::new();
    let mut ctx = Ctx::default();
    let strategy = c15_strategy(tier);
    let mut runner = TestRunner::new_with_rng(Config { failure_persistence: None, ..Config::default() }, runner::worker_rng(seed, "C15", worker));
    let mut violation: Option<(Case, String)> = None;
    for _ in 0..cases {
        let case = match strategy.new_tree(&mut runner) {
            Ok(t) => t.current(),
            Err(_) => continue,
        };
        crumb.write(serde_json::to_string(&case.to_json()).unwrap().as_bytes());
        ctx.begin();
        let r = match guard(|| c15_inproc(&case, &mut regions, &mut ctx)) {
            Ok(r) => r,
            Err(p) => Err(format!("panic: {}", p)),
        };
        ctx.end(&case);
        if let Err(reason) = r {
            violation = Some((case, reason));
            break;
        }
    }
    let fps: Vec<u64> = ctx.nontrivial.iter().copied().collect();
    let v = serde_json::json!({
        "evals": ctx.evals,
        "fps": fps,
        "classes": ctx.classes,
        "counters": ctx.counters,
        "samples": ctx.samples,
        "violation": violation.as_ref().map(|(c, r)| serde_json::json!({"case": c.to_json(), "reason": r})),
    });
    std::fs::write(out, serde_json::to_string(&v).unwrap()).expect("write child result");
    0
}

/// Child process body for a single case (replay / regression).
pub fn c15_one(case_file: &Path) -> i32 {
    let s = std::fs::read_to_string(case_file).expect("case file");
    let case = Case::from_json_str(&s).expect("case json");
    let mut regions = Regions::new();
    let mut ctx = Ctx::default();
    match guard(|| c15_inproc(&case, &mut regions, &mut ctx)) {
        Ok(Ok(())) => 0,
        Ok(Err(reason)) => {
            println!("C15-REASON {}", reason);
            1
        }
        Err(p) => {
            println!("C15-REASON panic: {}", p);
            1
        }
    }
}

fn describe_status(st: &std::process::ExitStatus) -> String {
    use std::os::unix::process::ExitStatusExt;
    match st.signal() {
        Some(sig) => format!("child killed by signal {} ({})", sig, match sig { 11 => "SIGSEGV: access outside the haystack hit a guard page", 7 => "SIGBUS", 4 => "SIGILL", 6 => "SIGABRT", _ => "signal" }),
        None => format!("child exited with status {:?}", st.code()),
    }
}

/// `check` used for replays and regressions: runs the case in a child.
fn c15_check_spawn(case: &Case, _ctx: &mut Ctx) -> Result<(), String> {
    let dir = scratch_dir();
    let path = dir.join(format!("one-{}-{:016x}.json", std::process::id(), case.fingerprint()));
    std::fs::write(&path, serde_json::to_string(&case.to_json()).unwrap()).map_err(|e| e.to_string())?;
    let exe = std::env::current_exe().map_err(|e| e.to_string())?;
    let out = std::process::Command::new(exe).arg("c15-one").arg(&path).output().map_err(|e| e.to_string())?;
    let _ = std::fs::remove_file(&path);
    if out.status.success() {
        return Ok(());
    }
    let stdout = String::from_utf8_lossy(&out.stdout);
    if let Some(line) = stdout.lines().find(|l| l.starts_with("C15-REASON ")) {
        return Err(line["C15-REASON ".len()..].to_string());
    }
    Err(describe_status(&out.status))
}

fn c15_extra(tier: Tier, seed: u64, total: &mut Ctx) -> Result<bool, Violation> {
    giant_pattern_scenario("C15", total)?;
    let cases: u64 = match tier {
        Tier::Quick => 400_000,
        Tier::Thorough => 3_000_000,
    };
    let scale: f64 = std::env::var("VERIF_SCALE").ok().and_then(|s| s.parse().ok()).unwrap_or(1.0);
    let cases = ((cases as f64) * scale) as u64;
    let per = (cases + WORKERS - 1) / WORKERS;
    let dir = scratch_dir();
    let exe = std::env::current_exe().expect("current exe");
    let pid = std::process::id();
    let mut children = Vec::new();
    for w in 0..WORKERS {
        let out = dir.join(format!("out-{}-{}.json", pid, w));
        let crumb = dir.join(format!("crumb-{}-{}.bin", pid, w));
        let _ = std::fs::remove_file(&out);
        let child = std::process::Command::new(&exe)
            .arg("c15-child")
            .arg(tier.name())
            .arg(seed.to_string())
            .arg(w.to_string())
            .arg(per.to_string())
            .arg(&out)
            .arg(&crumb)
            .stdout(std::process::Stdio::null())
            .spawn()
            .expect("spawn c15 child");
        children.push((child, out, crumb));
    }
    let mut violation: Option<Violation> = None;
    for (mut child, out, crumb) in children {
        let st = child.wait().expect("wait child");
        if !st.success() {
            let case = Crumb::read_file(&crumb)
                .and_then(|b| String::from_utf8(b).ok())
                .and_then(|s| Case::from_json_str(&s).ok());
            if violation.is_none() {
                violation = Some(Violation {
                    case: case.unwrap_or_else(|| Case { prop: "C15".into(), sub: "breadcrumb-unreadable".into(), ..Case::default() }),
                    reason: describe_status(&st),
                });
            }
        } else if let Ok(s) = std::fs::read_to_string(&out) {
            if let Ok(v) = serde_json::from_str::<serde_json::Value>(&s) {
                total.evals += v["evals"].as_u64().unwrap_or(0);
                if let Some(a) = v["fps"].as_array() {
                    for x in a {
                        if let Some(n) = x.as_u64() {
                            total.nontrivial.insert(n);
                        }
                    }
                }
                if let Some(o) = v["classes"].as_object() {
                    for (k, n) in o {
                        *total.classes.entry(k.clone()).or_insert(0) += n.as_u64().unwrap_or(0);
                    }
                }
                if let Some(a) = v["samples"].as_array() {
                    for x in a {
                        if total.samples.len() < 8 {
                            total.samples.push(x.clone());
                        }
                    }
                }
                if !v["violation"].is_null() && violation.is_none() {
                    let case = serde_json::from_value::<Case>(v["violation"]["case"].clone()).unwrap_or_default();
                    violation = Some(Violation { case, reason: v["violation"]["reason"].as_str().unwrap_or("").to_string() });
                }
            }
        }
        let _ = std::fs::remove_file(&out);
        let _ = std::fs::remove_file(&crumb);
    }
    total.count("child_processes", WORKERS);
    match violation {
        Some(v) => Err(v),
        None => Ok(false),
    }
}

pub const C15: PropDef = PropDef {
    id: "C15",
    rule: "16 child processes each run proptest-generated cases (arbitrary bytes incl. invalid UTF-8, every haystack length 0..160 forced by resizing plus sampled lengths up to 400 (thorough 4K), all engines, prefilter shapes, anchoring, spans, every packed variant via the hidden knobs). \
For each case the haystack is copied flush against a PROT_NONE page on the right and, separately, directly after one on the left, and find / earliest / find_iter / overlapping steps / is_match / replace_all_bytes / (for valid UTF-8 haystacks) replace_all and replace_all_with on &str / stream_find_iter / packed find_in+find+find_iter are run on both placements. \
A child dying by signal (SIGSEGV on a guard page) is a violation whose replay is the case the child stored in a MAP_SHARED breadcrumb file before running it; a panic is caught in the child; every reported match must satisfy start <= end <= len, pattern < patterns_len, inside the span. \
Non-trivial = a Teddy searcher actually ran on the haystack (span length >= minimum_len) or the haystack length is within 3 of a multiple of 16. Distinct = distinct case fingerprint.",
    assumptions: &[
        "guard pages detect reads/writes past either end of the haystack mapping, not reads past the end of pattern storage (the ASan fuzz target of the thorough tier covers those)",
        "x86-64 SSSE3/AVX2",
    ],
    cases_quick: 0,
    cases_thorough: 0,
    strategy: c15_strategy,
    check: c15_check_spawn,
    extra: Some(c15_extra),
    floors: &[
        ("teddy-path", 10_000),
        ("len-within-3-of-vector-multiple", 20_000),
        ("invalid-utf8", 20_000),
        ("packed:fat256", 5_000),
        ("packed:slim128", 5_000),
        ("packed:slim256", 5_000),
        ("packed:rabinkarp", 3_000),
        ("prefilter:Packed", 1_000),
        ("prefilter:RareBytesTwo", 1_000),
        ("prefilter:Memmem", 1_000),
    ],
};

#[allow(dead_code)]
fn _c(_: &Cfg) {}
